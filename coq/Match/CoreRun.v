(** CORE at run level: a run is the fold of the per-line semantics over the scanned lines
    (Run/RunFold.v instantiated), and what that fold leaves in a tally() dictionary is the number
    of scanned lines per value. *)
From Coq Require Import ZArith List Bool Lia.
From V Require Import Csv.CsvModel Data.DataModel Scan.ScanModel Scan.ScanSpec Run.RunLoop Run.RunProofs Run.RunFold
  Match.Adjudicate Match.AdjProofs Match.Core Match.CoreProofs Match.AggProofs.
Import ListNotations.
Open Scope Z_scope.

Section CoreRun.
  Variable q : quirks.
  Variable blanks : list bool.
  Variable AND : bool.

  Lemma do_action_frozen s l a : frozen mx (do_action q blanks AND s l a) = frozen mx s.
  Proof. destruct a as [? ?|? ?|? ?|? ?|? ?|? ?|g]; cbn; try (destruct (rev _)); cbn; auto. destruct g; cbn; try (destruct (dget _ _ _) as [[]|]); try (destruct (is_blank_text _)); try (destruct (none_like _)); try (destruct (Assign.do_assignment _ _ _ _) as [[[|] ?]|]); cbn; auto. Qed.
  Lemma eval_frozen c s l : frozen mx (fst (eval q blanks AND c s l)) = frozen mx s.
  Proof.
    destruct c as [b|a|b a|g|na0 i0 k0 r0]; cbn; auto using do_action_frozen.
    - destruct (beval q blanks s l b); cbn; auto using do_action_frozen.
    - apply (do_action_frozen s l (Agg g)).
  Qed.

  (** the match part never stops, advances, touches the scan counter or the frozen flag *)
  Lemma core_m_flags cs e s l :
    stopped mx (fst (core_m q blanks AND cs e s l)) = stopped mx s /\ adv mx (fst (core_m q blanks AND cs e s l)) = adv mx s /\
    scan_count mx (fst (core_m q blanks AND cs e s l)) = scan_count mx s /\ frozen mx (fst (core_m q blanks AND cs e s l)) = frozen mx s.
  Proof.
    unfold core_m. cbv zeta.
    assert (He: stopped mx (ensure cs s) = stopped mx s /\ adv mx (ensure cs s) = adv mx s /\ scan_count mx (ensure cs s) = scan_count mx s /\ frozen mx (ensure cs s) = frozen mx s)
      by (unfold ensure; destruct (frozen mx s) eqn:Ef; cbn; rewrite ?Ef; auto).
    destruct (oeqb e (pln mx (ensure cs s)) && is_nil l); [exact He|]. unfold matches.
    pose proof (adj_inv cst comp (stopped mx) (fun _ => false) (fun s0 => s0) (fun c s0 => eval q blanks AND c s0 l) (fun s0 => s0)
                  (fun s0 => stopped mx s0 = stopped mx s /\ adv mx s0 = adv mx s /\ scan_count mx s0 = scan_count mx s /\ frozen mx s0 = frozen mx s)
                  (fun _ h => h) (fun _ h => h) false AND cs (ensure cs s) (negb AND)) as K.
    destruct (adj cst comp (stopped mx) (fun _ => false) (fun s0 => s0) (fun c s0 => eval q blanks AND c s0 l) (fun s0 => s0) false AND cs (ensure cs s) (negb AND)) as [[s2 b] ev].
    cbn [fst] in *. apply K; [|exact He].
    intros c _ s0 (H1 & H2 & H3 & H4). destruct (eval_keeps q blanks AND c s0 l) as (K1 & _ & K3 & K4 & _).
    rewrite K1, K3, K4, (eval_frozen c s0 l). auto.
  Qed.

  (** ... nor the line monitor *)
  Lemma core_m_pln cs e s l : pln mx (fst (core_m q blanks AND cs e s l)) = pln mx s.
  Proof.
    unfold core_m. cbv zeta.
    assert (He: pln mx (ensure cs s) = pln mx s) by (unfold ensure; destruct (frozen mx s); reflexivity).
    destruct (oeqb e (pln mx (ensure cs s)) && is_nil l); [exact He|]. unfold matches.
    pose proof (adj_inv cst comp (stopped mx) (fun _ => false) (fun s0 => s0) (fun c s0 => eval q blanks AND c s0 l) (fun s0 => s0)
                  (fun s0 => pln mx s0 = pln mx s) (fun _ h => h) (fun _ h => h) false AND cs (ensure cs s) (negb AND)) as K.
    destruct (adj cst comp (stopped mx) (fun _ => false) (fun s0 => s0) (fun c s0 => eval q blanks AND c s0 l) (fun s0 => s0) false AND cs (ensure cs s) (negb AND)) as [[s2 b] ev].
    cbn [fst] in *. apply K; [|exact He].
    intros c _ s0 H. destruct (eval_keeps q blanks AND c s0 l) as (_ & _ & _ & _ & K5). rewrite K5. exact H.
  Qed.

  Lemma core_m_quiet cs e : quiet ustring mx (core_m q blanks AND cs e).
  Proof. intros s l. destruct (core_m_flags cs e s l) as (H1 & H2 & H3 & _). auto. Qed.

  Lemma core_m_frozen_blank cs e s : oeqb e (pln mx s) = true ->
    core mx (fst (core_m q blanks AND cs e (set_frozen mx s) [])) = core mx s.
  Proof. intros H. unfold core_m. cbv zeta. unfold ensure. cbn [frozen set_frozen pln]. rewrite H. reflexivity. Qed.

  (** * C02 + C03 together: the run is the fold over the scanned lines *)
  Theorem core_run_is_fold sh (c : cfg) E cs (recs : list (line ustring)) x0 :
    wf sh -> parse false (ast_of sh) = Some (scanner c) -> q_scan c = false -> end_line c = Some E ->
    end_of ustring recs = Some E -> will_run c = true ->
    core mx (st ustring mx (run_from ustring mx (core_m q blanks AND cs (Some E)) c (rs0 mx x0) None recs)) =
    core mx (fold_left (line_step ustring mx (core_m q blanks AND cs (Some E))) (filter (want ustring sh) (number 0 recs)) (rs0 mx x0)).
  Proof.
    intros Hwf Hp Hq He Hend Hw.
    apply (run_is_fold ustring mx (core_m q blanks AND cs (Some E)) sh c E Hwf Hp Hq He (core_m_quiet cs (Some E))); try assumption.
    - intros s Hs. rewrite He in Hs. apply core_m_frozen_blank. exact Hs.
    - intros s l. destruct (core_m_flags cs (Some E) s l) as (_ & _ & _ & H). exact H.
  Qed.

  (** ... and the lines returned are the scanned lines voted for (no-matches mode: the others), in file order *)
  Theorem core_run_returns sh (c : cfg) E cs (recs : list (line ustring)) x0 :
    wf sh -> parse false (ast_of sh) = Some (scanner c) -> q_scan c = false -> end_line c = Some E ->
    end_of ustring recs = Some E -> will_run c = true ->
    let r := run_from ustring mx (core_m q blanks AND cs (Some E)) c (rs0 mx x0) None recs in
    let F := fold_left (ret_step ustring mx (core_m q blanks AND cs (Some E)) c) (filter (want ustring sh) (number 0 recs)) (rs0 mx x0, []) in
    core mx (st ustring mx r) = core mx (fst F) /\ returned ustring mx r = snd F.
  Proof.
    intros Hwf Hp Hq He Hend Hw.
    apply (run_returns_fold ustring mx (core_m q blanks AND cs (Some E)) sh c E Hwf Hp Hq He (core_m_quiet cs (Some E))); try assumption.
    - intros s Hs. rewrite He in Hs. apply core_m_frozen_blank. exact Hs.
    - intros s l. destruct (core_m_flags cs (Some E) s l) as (_ & _ & _ & H). exact H.
  Qed.

  (** * frame: a component that does not name a dictionary leaves it alone *)
  Definition writes_comp (c : comp) : option Z := match comp_agg c with Some g => writes g | None => None end.

  Lemma do_agg_frame s l g d : writes g <> Some d -> forall key, dget (x mx (fst (do_agg q blanks AND s l g))) d key = dget (x mx s) d key.
  Proof.
    intros Hw key. destruct g as [i|nm i|nm i n|nm k|nm e|nm i e|nm key' e|i|i j|nm e|nm k0 n0|v0 nm c0|qs0 nm key0 e|qs0 nm e]; cbn [do_agg writes] in *;
      try (cbn [fst x with_mx]; first [reflexivity | apply dget_dset_other_dict; intros E0; apply Hw; rewrite E0; reflexivity]).
    - destruct (dget (x mx s) nm (hdr_key l i)) as [[z'|z'|t|]|]; cbn [fst x with_mx]; try reflexivity;
        apply dget_dset_other_dict; intros E0; apply Hw; rewrite E0; reflexivity.
    - destruct (none_like _); reflexivity.
    - destruct (is_blank_text (tally_text l i)); cbn [fst x with_mx]; [reflexivity|].
      apply dget_dset_other_dict; intros E0; apply Hw; rewrite E0; reflexivity.
    - assert (Hn : nm <> d) by (intros E0; apply Hw; rewrite E0; reflexivity).
      destruct (Assign.do_assignment _ _ _ _) as [[[|] ?]|]; cbn [fst x with_mx];
        rewrite ?dget_dset_other_dict, dget_ensure_other_dict by exact Hn; reflexivity.
    - destruct (Assign.do_assignment _ _ _ _) as [[[|] ?]|]; reflexivity.
  Qed.

  Lemma eval_frame c s l d : writes_comp c <> Some d -> forall key, dget (x mx (fst (eval q blanks AND c s l))) d key = dget (x mx s) d key.
  Proof.
    intros Hw key. unfold writes_comp in Hw.
    destruct c as [b|a|b a|g|na0 i0 k0 r0]; cbn [eval comp_agg] in *.
    - reflexivity.
    - destruct a as [? ?|? ?|? ?|? ?|? ?|? ?|g]; try (cbn [fst]; unfold dget; rewrite do_action_dicts; [reflexivity|discriminate]).
      cbn [fst do_action]. apply do_agg_frame. exact Hw.
    - destruct (beval q blanks s l b); [|reflexivity].
      destruct a as [? ?|? ?|? ?|? ?|? ?|? ?|g]; try (cbn [fst]; unfold dget; rewrite do_action_dicts; [reflexivity|discriminate]).
      cbn [fst do_action]. apply do_agg_frame. exact Hw.
    - apply do_agg_frame. exact Hw.
    - reflexivity.
  Qed.

  Notation ev l := (fun (c : comp) (s : cst) => eval q blanks AND c s l).

  Lemma seq_eval_frame l d : forall cs s f, Forall (fun c => writes_comp c <> Some d) cs ->
    forall key, dget (x mx (fst (seq_eval cst comp (ev l) AND cs s f))) d key = dget (x mx s) d key.
  Proof.
    induction cs as [|c cs IH]; intros s f Hall key; [reflexivity|].
    inversion Hall as [|c0 cs0 Hc Hcs]; subst. cbn [seq_eval].
    pose proof (eval_frame c s l d Hc key) as Hf. destruct (eval q blanks AND c s l) as [s1 v]. cbn [fst] in Hf.
    rewrite (IH s1 (upd AND f v) Hcs key). exact Hf.
  Qed.

  Lemma seq_eval_app l : forall a b s f,
    seq_eval cst comp (ev l) AND (a ++ b) s f =
    seq_eval cst comp (ev l) AND b (fst (seq_eval cst comp (ev l) AND a s f)) (snd (seq_eval cst comp (ev l) AND a s f)).
  Proof.
    induction a as [|c a IH]; intros b s f; [reflexivity|]. cbn [app seq_eval].
    destruct (eval q blanks AND c s l) as [s1 v]. apply IH.
  Qed.

  (** the csvpath has the component tally(#i) once at top level, and nothing else names its dictionary *)
  Definition tally_once (i : nat) (cs : list comp) : Prop :=
    exists pre post, cs = pre ++ CAgg (Tally i) :: post /\
      Forall (fun c => writes_comp c <> Some (100 + Z.of_nat i)) pre /\ Forall (fun c => writes_comp c <> Some (100 + Z.of_nat i)) post.

  (** one scanned line adds one to the count of the line's value and nothing else in that dictionary *)
  Lemma line_tally i cs e s l key : tally_once i cs -> stopped mx s = false -> l <> [] ->
    dget (x mx (fst (core_m q blanks AND cs e s l))) (100 + Z.of_nat i) key =
      if ustr_eqb (hdr_key l i) key then Some (VI (num_of (dget (x mx s) (100 + Z.of_nat i) key) + 1)) else dget (x mx s) (100 + Z.of_nat i) key.
  Proof.
    intros (pre & post & Hcs & Hpre & Hpost) Hs Hl.
    assert (Hb: (oeqb e (pln mx s) && is_nil l) = false) by (destruct l; [contradiction|apply andb_false_r]).
    rewrite (core_line_vote q blanks AND cs e s l Hs Hb). cbn [fst]. cbv beta.
    assert (He: forall k, dget (x mx (ensure cs s)) (100 + Z.of_nat i) k = dget (x mx s) (100 + Z.of_nat i) k)
      by (intros k; unfold ensure; destruct (frozen mx s); reflexivity).
    rewrite Hcs at 1. rewrite seq_eval_app. cbn [seq_eval].
    set (s1 := fst (seq_eval cst comp (ev l) AND pre (ensure cs s) (negb AND))).
    set (f1 := snd (seq_eval cst comp (ev l) AND pre (ensure cs s) (negb AND))).
    assert (H1: forall k, dget (x mx s1) (100 + Z.of_nat i) k = dget (x mx s) (100 + Z.of_nat i) k)
      by (intros k; unfold s1; rewrite seq_eval_frame by exact Hpre; apply He).
    pose proof (tally_step q blanks AND s1 l i) as T. cbn zeta in T. destruct T as (T1 & T2 & _).
    change (eval q blanks AND (CAgg (Tally i)) s1 l) with (do_agg q blanks AND s1 l (Tally i)).
    destruct (do_agg q blanks AND s1 l (Tally i)) as [s2 v] eqn:Ed. cbn [fst] in T1, T2.
    rewrite seq_eval_frame by exact Hpost.
    destruct (ustr_eqb (hdr_key l i) key) eqn:Ek.
    - apply ustr_eqb_eq in Ek. subst key. rewrite T1, H1. reflexivity.
    - rewrite T2; [apply H1|]. intros E0. rewrite E0, ustr_eqb_refl in Ek. discriminate.
  Qed.

  Definition count_key (i : nat) (key : ustring) (lines : list (Z * line ustring)) : Z :=
    Z.of_nat (length (filter (fun nl => ustr_eqb (hdr_key (snd nl) i) key) lines)).

  Lemma fold_tally i cs e key : tally_once i cs -> forall lines s, Forall (fun nl : Z * line ustring => snd nl <> []) lines ->
    num_of (dget (x mx (fold_left (line_step ustring mx (core_m q blanks AND cs e)) lines s)) (100 + Z.of_nat i) key) =
    num_of (dget (x mx s) (100 + Z.of_nat i) key) + count_key i key lines.
  Proof.
    intros Ht. induction lines as [|[n l] lines IH]; intros s Hnb; [unfold count_key; cbn; lia|].
    inversion Hnb as [|nl0 r0 Hl Hr]; subst. cbn [snd] in Hl. cbn [fold_left].
    rewrite (IH _ Hr). unfold count_key. cbn [filter snd].
    assert (Hx: dget (x mx (line_step ustring mx (core_m q blanks AND cs e) s (n, l))) (100 + Z.of_nat i) key =
                if ustr_eqb (hdr_key l i) key then Some (VI (num_of (dget (x mx s) (100 + Z.of_nat i) key) + 1)) else dget (x mx s) (100 + Z.of_nat i) key).
    { unfold line_step. cbn [fst snd].
      set (s1 := mkRs mx n (scan_count mx s + 1) (match_count mx s) (match_count mx s) 0 false false (x mx s)).
      pose proof (line_tally i cs e s1 l key Ht eq_refl Hl) as H. cbn [x] in H.
      destruct (core_m q blanks AND cs e s1 l) as [s2 v]. cbn [fst] in H.
      destruct v; [unfold raise_match_count_if; destruct (_ =? _); cbn [x]; exact H|exact H]. }
    rewrite Hx. destruct (ustr_eqb (hdr_key l i) key); cbn [length num_of]; lia.
  Qed.

  (** * tally() counts the scanned lines per value *)
  Theorem tally_counts_scanned sh (c : cfg) E cs (recs : list (line ustring)) x0 i key :
    wf sh -> parse false (ast_of sh) = Some (scanner c) -> q_scan c = false -> end_line c = Some E ->
    end_of ustring recs = Some E -> will_run c = true -> tally_once i cs ->
    num_of (dget (x mx (st ustring mx (run_from ustring mx (core_m q blanks AND cs (Some E)) c (rs0 mx x0) None recs))) (100 + Z.of_nat i) key) =
    num_of (dget x0 (100 + Z.of_nat i) key) + count_key i key (filter (want ustring sh) (number 0 recs)).
  Proof.
    intros Hwf Hp Hq He Hend Hw Ht.
    pose proof (core_run_is_fold sh c E cs recs x0 Hwf Hp Hq He Hend Hw) as H. unfold core in H. injection H as Hx _ _.
    rewrite Hx. rewrite (fold_tally i cs (Some E) key Ht); [reflexivity|].
    apply Forall_forall. intros [n l] Hin. apply filter_In in Hin. destruct Hin as [_ Hwant].
    unfold want, nonblank in Hwant. cbn [fst snd] in *. apply andb_prop in Hwant. destruct Hwant as [_ Hnb].
    destruct l; [discriminate|discriminate].
  Qed.

  (** * counter(): the same for a plain variable *)
  Definition writes_var (c : comp) : option Z :=
    match c with
    | CAct (AssignN v _) | CAct (AssignS v _) | CAct (Pop v _) | CWhen _ (AssignN v _) | CWhen _ (AssignS v _) | CWhen _ (Pop v _) => Some v
    | CAgg (Counter v _) | CAgg (Sum v _) | CAct (Agg (Counter v _)) | CAct (Agg (Sum v _)) | CWhen _ (Agg (Counter v _)) | CWhen _ (Agg (Sum v _)) => Some v
    | CAgg (CounterE v _) | CAct (Agg (CounterE v _)) | CWhen _ (Agg (CounterE v _)) => Some v
    | CAgg (CounterEq v _ _) | CAct (Agg (CounterEq v _ _)) | CWhen _ (Agg (CounterEq v _ _)) => Some v
    | CAgg (CountIf v _ _) | CAct (Agg (CountIf v _ _)) | CWhen _ (Agg (CountIf v _ _)) => Some v
    | CAgg (AssignQ _ v _) | CAct (Agg (AssignQ _ v _)) | CWhen _ (Agg (AssignQ _ v _)) => Some v
    | _ => None
    end.

  Lemma do_agg_frame_var s l g v : (match g with Counter nm _ | Sum nm _ | CounterE nm _ | CounterEq nm _ _ | CountIf nm _ _ | AssignQ _ nm _ => nm <> v | _ => True end) ->
    lookup v (vars (x mx (fst (do_agg q blanks AND s l g)))) = lookup v (vars (x mx s)).
  Proof.
    intros Hw. destruct g as [i|nm i|nm i n|nm k|nm e|nm i e|nm key' e|i|i j|nm e|nm k0 n0|v0 nm c0|qs0 nm key0 e|qs0 nm e]; cbn [do_agg]; try reflexivity;
      try (cbn [fst x with_mx vars dset]; apply lookup_update_other; exact Hw).
    - destruct (dget (x mx s) nm (hdr_key l i)) as [[z'|z'|t|]|]; reflexivity.
    - destruct (none_like _); cbn [fst x with_mx vars]; apply lookup_update_other; exact Hw.
    - destruct (is_blank_text (tally_text l i)); reflexivity.
    - destruct (Assign.do_assignment _ _ _ _) as [[[|] ?]|]; cbn [fst x with_mx dset vars]; rewrite ensure_key_vars; reflexivity.
    - destruct (Assign.do_assignment _ _ _ _) as [[[|] ?]|]; cbn [fst x with_mx vars]; try reflexivity. apply lookup_update_other. exact Hw.
  Qed.

  Lemma do_action_frame_var s l a v : (match a with AssignN w _ | AssignS w _ | Pop w _ => w <> v | Agg (Counter w _) | Agg (Sum w _) | Agg (CounterE w _) | Agg (CounterEq w _ _) | Agg (CountIf w _ _) | Agg (AssignQ _ w _) => w <> v | _ => True end) ->
    lookup v (vars (x mx (do_action q blanks AND s l a))) = lookup v (vars (x mx s)).
  Proof.
    intros Hw. destruct a as [w e|w e|k e|k e|w k|k e|g]; cbn [do_action].
    - cbn [x with_mx vars]. apply lookup_update_other. exact Hw.
    - cbn [x with_mx vars]. apply lookup_update_other. exact Hw.
    - reflexivity.
    - reflexivity.
    - destruct (rev _); cbn [x with_mx vars]; apply lookup_update_other; exact Hw.
    - reflexivity.
    - apply do_agg_frame_var. destruct g; try exact I; exact Hw.
  Qed.

  Lemma eval_frame_var c s l v : writes_var c <> Some v -> lookup v (vars (x mx (fst (eval q blanks AND c s l)))) = lookup v (vars (x mx s)).
  Proof.
    intros Hw. destruct c as [b|a|b a|g|na0 i0 k0 r0]; cbn [eval].
    - reflexivity.
    - cbn [fst]. apply do_action_frame_var. destruct a as [w e|w e|k e|k e|w k|k e|g]; try exact I; try (intros E0; apply Hw; cbn; rewrite E0; reflexivity).
      destruct g; try exact I; intros E0; apply Hw; cbn; rewrite E0; reflexivity.
    - destruct (beval q blanks s l b); [|reflexivity]. cbn [fst]. apply do_action_frame_var.
      destruct a as [w e|w e|k e|k e|w k|k e|g]; try exact I; try (intros E0; apply Hw; cbn; rewrite E0; reflexivity).
      destruct g; try exact I; intros E0; apply Hw; cbn; rewrite E0; reflexivity.
    - apply do_agg_frame_var. destruct g; try exact I; intros E0; apply Hw; cbn; rewrite E0; reflexivity.
    - reflexivity.
  Qed.

  Lemma seq_eval_frame_var l v : forall cs s f, Forall (fun c => writes_var c <> Some v) cs ->
    lookup v (vars (x mx (fst (seq_eval cst comp (ev l) AND cs s f)))) = lookup v (vars (x mx s)).
  Proof.
    induction cs as [|c cs IH]; intros s f Hall; [reflexivity|].
    inversion Hall as [|c0 cs0 Hc Hcs]; subst. cbn [seq_eval].
    pose proof (eval_frame_var c s l v Hc) as Hf. destruct (eval q blanks AND c s l) as [s1 b]. cbn [fst] in Hf.
    rewrite (IH s1 (upd AND f b) Hcs). exact Hf.
  Qed.

  (** validation creates absent counter variables as 0: the number a variable holds does not change *)
  Lemma lookup_app_num v : forall (vs : list (Z * value)) w, num_of (lookup v (vs ++ [(w, VI 0)])) = num_of (lookup v vs).
  Proof.
    induction vs as [|[k0 v0] r IH]; intros w; cbn.
    - destruct (w =? v); reflexivity.
    - destruct (k0 =? v); [reflexivity|apply IH].
  Qed.
  Lemma init_vars_num v : forall cs vs, num_of (lookup v (init_vars cs vs)) = num_of (lookup v vs).
  Proof.
    unfold init_vars. induction cs as [|c cs IH]; intros vs; [reflexivity|]. cbn [fold_left]. rewrite IH.
    unfold comp_init. destruct c as [b|a|b a|g|na0 i0 k0 r0]; try reflexivity;
      try (destruct a as [? ?|? ?|? ?|? ?|? ?|? ?|g]; try reflexivity);
      (destruct g as [i|nm i|nm i n|nm k|nm e|nm i e|nm key' e|i|i j|nm e|nm k0 n0|v0 nm c0|qs0 nm key0 e|qs0 nm e]; try reflexivity; cbn [agg_init]; destruct (lookup nm vs); first [reflexivity|apply lookup_app_num]).
  Qed.

  Definition counter_once (nm k : Z) (cs : list comp) : Prop :=
    exists pre post, cs = pre ++ CAgg (Counter nm k) :: post /\
      Forall (fun c => writes_var c <> Some nm) pre /\ Forall (fun c => writes_var c <> Some nm) post.

  Lemma line_counter nm k cs e s l : counter_once nm k cs -> stopped mx s = false -> l <> [] ->
    num_of (lookup nm (vars (x mx (fst (core_m q blanks AND cs e s l))))) = num_of (lookup nm (vars (x mx s))) + k.
  Proof.
    intros (pre & post & Hcs & Hpre & Hpost) Hs Hl.
    assert (Hb: (oeqb e (pln mx s) && is_nil l) = false) by (destruct l; [contradiction|apply andb_false_r]).
    rewrite (core_line_vote q blanks AND cs e s l Hs Hb). cbn [fst]. cbv beta.
    assert (He: num_of (lookup nm (vars (x mx (ensure cs s)))) = num_of (lookup nm (vars (x mx s))))
      by (unfold ensure; destruct (frozen mx s); [reflexivity|cbn [x with_mx vars]; apply init_vars_num]).
    rewrite Hcs at 1. rewrite seq_eval_app. cbn [seq_eval].
    set (s1 := fst (seq_eval cst comp (ev l) AND pre (ensure cs s) (negb AND))).
    assert (H1: lookup nm (vars (x mx s1)) = lookup nm (vars (x mx (ensure cs s)))) by (unfold s1; apply seq_eval_frame_var; exact Hpre).
    pose proof (counter_step q blanks AND s1 l nm k) as T. cbn zeta in T. destruct T as (T1 & _).
    change (eval q blanks AND (CAgg (Counter nm k)) s1 l) with (do_agg q blanks AND s1 l (Counter nm k)).
    destruct (do_agg q blanks AND s1 l (Counter nm k)) as [s2 v] eqn:Ed. cbn [fst] in T1.
    rewrite seq_eval_frame_var by exact Hpost. rewrite T1. cbn [num_of]. rewrite H1, He. reflexivity.
  Qed.

  Lemma fold_counter nm k cs e : counter_once nm k cs -> forall lines s, Forall (fun nl : Z * line ustring => snd nl <> []) lines ->
    num_of (lookup nm (vars (x mx (fold_left (line_step ustring mx (core_m q blanks AND cs e)) lines s)))) =
    num_of (lookup nm (vars (x mx s))) + k * Z.of_nat (length lines).
  Proof.
    intros Ht. induction lines as [|[n l] lines IH]; intros s Hnb; [cbn; lia|].
    inversion Hnb as [|nl0 r0 Hl Hr]; subst. cbn [snd] in Hl. cbn [fold_left].
    rewrite (IH _ Hr).
    assert (Hx: num_of (lookup nm (vars (x mx (line_step ustring mx (core_m q blanks AND cs e) s (n, l))))) = num_of (lookup nm (vars (x mx s))) + k).
    { unfold line_step. cbn [fst snd].
      set (s1 := mkRs mx n (scan_count mx s + 1) (match_count mx s) (match_count mx s) 0 false false (x mx s)).
      pose proof (line_counter nm k cs e s1 l Ht eq_refl Hl) as H. cbn [x] in H.
      destruct (core_m q blanks AND cs e s1 l) as [s2 v]. cbn [fst] in H.
      destruct v; [unfold raise_match_count_if; destruct (_ =? _); cbn [x]; exact H|exact H]. }
    rewrite Hx. cbn [length]. lia.
  Qed.

  (** counter.nm(k) once at top level, nothing else writing the variable: after ANY run it holds k times the number of scanned lines *)
  Theorem counter_counts_scanned sh (c : cfg) E cs (recs : list (line ustring)) x0 nm k :
    wf sh -> parse false (ast_of sh) = Some (scanner c) -> q_scan c = false -> end_line c = Some E ->
    end_of ustring recs = Some E -> will_run c = true -> counter_once nm k cs ->
    num_of (lookup nm (vars (x mx (st ustring mx (run_from ustring mx (core_m q blanks AND cs (Some E)) c (rs0 mx x0) None recs))))) =
    num_of (lookup nm (vars x0)) + k * Z.of_nat (length (filter (want ustring sh) (number 0 recs))).
  Proof.
    intros Hwf Hp Hq He Hend Hw Ht.
    pose proof (core_run_is_fold sh c E cs recs x0 Hwf Hp Hq He Hend Hw) as H. unfold core in H. injection H as Hx _ _.
    rewrite Hx. rewrite (fold_counter nm k cs (Some E) Ht); [reflexivity|].
    apply Forall_forall. intros [n l] Hin. apply filter_In in Hin. destruct Hin as [_ Hwant].
    unfold want, nonblank in Hwant. cbn [fst snd] in *. apply andb_prop in Hwant. destruct Hwant as [_ Hnb].
    destruct l; [discriminate|discriminate].
  Qed.

  (** * sum() of a header: the total of the scanned lines' cells *)
  Definition cell_num (l : line ustring) (i : nat) : Z := fst (neval blanks (rs0 mx (mkMx [] [] [])) l (NHdr i)).
  Lemma neval_hdr s l i : fst (neval blanks s l (NHdr i)) = cell_num l i.
  Proof. reflexivity. Qed.

  Definition sum_once (nm : Z) (i : nat) (cs : list comp) : Prop :=
    exists pre post, cs = pre ++ CAgg (Sum nm (NHdr i)) :: post /\
      Forall (fun c => writes_var c <> Some nm) pre /\ Forall (fun c => writes_var c <> Some nm) post.

  Lemma line_sum nm i cs e s l : sum_once nm i cs -> stopped mx s = false -> l <> [] ->
    num_of (lookup nm (vars (x mx (fst (core_m q blanks AND cs e s l))))) = num_of (lookup nm (vars (x mx s))) + cell_num l i.
  Proof.
    intros (pre & post & Hcs & Hpre & Hpost) Hs Hl.
    assert (Hb: (oeqb e (pln mx s) && is_nil l) = false) by (destruct l; [contradiction|apply andb_false_r]).
    rewrite (core_line_vote q blanks AND cs e s l Hs Hb). cbn [fst]. cbv beta.
    assert (He: num_of (lookup nm (vars (x mx (ensure cs s)))) = num_of (lookup nm (vars (x mx s))))
      by (unfold ensure; destruct (frozen mx s); [reflexivity|cbn [x with_mx vars]; apply init_vars_num]).
    rewrite Hcs at 1. rewrite seq_eval_app. cbn [seq_eval].
    set (s1 := fst (seq_eval cst comp (ev l) AND pre (ensure cs s) (negb AND))).
    assert (H1: lookup nm (vars (x mx s1)) = lookup nm (vars (x mx (ensure cs s)))) by (unfold s1; apply seq_eval_frame_var; exact Hpre).
    pose proof (sum_step q blanks AND s1 l nm (NHdr i)) as T. cbn zeta in T. destruct T as (T1 & _).
    change (eval q blanks AND (CAgg (Sum nm (NHdr i))) s1 l) with (do_agg q blanks AND s1 l (Sum nm (NHdr i))).
    destruct (do_agg q blanks AND s1 l (Sum nm (NHdr i))) as [s2 v] eqn:Ed. cbn [fst] in T1.
    rewrite seq_eval_frame_var by exact Hpost. rewrite T1. rewrite H1, He, neval_hdr. reflexivity.
  Qed.

  Definition total_of (i : nat) (lines : list (Z * line ustring)) : Z := fold_right (fun nl acc => cell_num (snd nl) i + acc) 0 lines.

  Lemma fold_sum nm i cs e : sum_once nm i cs -> forall lines s, Forall (fun nl : Z * line ustring => snd nl <> []) lines ->
    num_of (lookup nm (vars (x mx (fold_left (line_step ustring mx (core_m q blanks AND cs e)) lines s)))) =
    num_of (lookup nm (vars (x mx s))) + total_of i lines.
  Proof.
    intros Ht. induction lines as [|[n l] lines IH]; intros s Hnb; [cbn; lia|].
    inversion Hnb as [|nl0 r0 Hl Hr]; subst. cbn [snd] in Hl. cbn [fold_left].
    rewrite (IH _ Hr).
    assert (Hx: num_of (lookup nm (vars (x mx (line_step ustring mx (core_m q blanks AND cs e) s (n, l))))) = num_of (lookup nm (vars (x mx s))) + cell_num l i).
    { unfold line_step. cbn [fst snd].
      set (s1 := mkRs mx n (scan_count mx s + 1) (match_count mx s) (match_count mx s) 0 false false (x mx s)).
      pose proof (line_sum nm i cs e s1 l Ht eq_refl Hl) as H. cbn [x] in H.
      destruct (core_m q blanks AND cs e s1 l) as [s2 v]. cbn [fst] in H.
      destruct v; [unfold raise_match_count_if; destruct (_ =? _); cbn [x]; exact H|exact H]. }
    rewrite Hx. cbn [total_of fold_right snd]. fold (total_of i lines). lia.
  Qed.

  (** sum.nm(#i) once at top level, nothing else writing the variable: after ANY run it holds the total of cell i over the scanned lines *)
  Theorem sum_totals_scanned sh (c : cfg) E cs (recs : list (line ustring)) x0 nm i :
    wf sh -> parse false (ast_of sh) = Some (scanner c) -> q_scan c = false -> end_line c = Some E ->
    end_of ustring recs = Some E -> will_run c = true -> sum_once nm i cs ->
    num_of (lookup nm (vars (x mx (st ustring mx (run_from ustring mx (core_m q blanks AND cs (Some E)) c (rs0 mx x0) None recs))))) =
    num_of (lookup nm (vars x0)) + total_of i (filter (want ustring sh) (number 0 recs)).
  Proof.
    intros Hwf Hp Hq He Hend Hw Ht.
    pose proof (core_run_is_fold sh c E cs recs x0 Hwf Hp Hq He Hend Hw) as H. unfold core in H. injection H as Hx _ _.
    rewrite Hx. rewrite (fold_sum nm i cs (Some E) Ht); [reflexivity|].
    apply Forall_forall. intros [n l] Hin. apply filter_In in Hin. destruct Hin as [_ Hwant].
    unfold want, nonblank in Hwant. cbn [fst snd] in *. apply andb_prop in Hwant. destruct Hwant as [_ Hnb].
    destruct l; [discriminate|discriminate].
  Qed.

  (** * first(): the line of the first scanned occurrence of each value *)
  Definition first_once (nm : Z) (i : nat) (cs : list comp) : Prop :=
    exists pre post, cs = pre ++ CAgg (First nm i) :: post /\
      Forall (fun c => writes_comp c <> Some nm) pre /\ Forall (fun c => writes_comp c <> Some nm) post.

  Definition entry_ok (o : option value) : Prop := o = None \/ exists z, o = Some (VI z).

  Lemma line_first nm i cs e s l key : first_once nm i cs -> stopped mx s = false -> l <> [] -> entry_ok (dget (x mx s) nm key) ->
    dget (x mx (fst (core_m q blanks AND cs e s l))) nm key =
      match dget (x mx s) nm key with
      | Some v => Some v
      | None => if ustr_eqb (hdr_key l i) key then Some (VI (pln mx s)) else None
      end.
  Proof.
    intros (pre & post & Hcs & Hpre & Hpost) Hs Hl Hok.
    assert (Hb: (oeqb e (pln mx s) && is_nil l) = false) by (destruct l; [contradiction|apply andb_false_r]).
    rewrite (core_line_vote q blanks AND cs e s l Hs Hb). cbn [fst]. cbv beta.
    assert (He: forall k, dget (x mx (ensure cs s)) nm k = dget (x mx s) nm k)
      by (intros k; unfold ensure; destruct (frozen mx s); reflexivity).
    assert (Hp: pln mx (ensure cs s) = pln mx s) by (unfold ensure; destruct (frozen mx s); reflexivity).
    rewrite Hcs at 1. rewrite seq_eval_app. cbn [seq_eval].
    set (s1 := fst (seq_eval cst comp (ev l) AND pre (ensure cs s) (negb AND))).
    assert (H1: forall k, dget (x mx s1) nm k = dget (x mx s) nm k)
      by (intros k; unfold s1; rewrite seq_eval_frame by exact Hpre; apply He).
    assert (Hp1: pln mx s1 = pln mx s).
    { unfold s1. rewrite <- Hp. clear. generalize (ensure cs s) (negb AND). induction pre as [|c pre IH]; intros s0 f; [reflexivity|].
      cbn [seq_eval]. destruct (eval_keeps q blanks AND c s0 l) as (_ & _ & _ & _ & K). destruct (eval q blanks AND c s0 l) as [s2 v]. cbn [fst] in K.
      rewrite IH. exact K. }
    change (eval q blanks AND (CAgg (First nm i)) s1 l) with (do_agg q blanks AND s1 l (First nm i)).
    assert (T: dget (x mx (fst (do_agg q blanks AND s1 l (First nm i)))) nm key =
               match dget (x mx s) nm key with Some v => Some v | None => if ustr_eqb (hdr_key l i) key then Some (VI (pln mx s)) else None end).
    { cbn [do_agg]. destruct (ustr_eqb (hdr_key l i) key) eqn:Ek.
      - apply ustr_eqb_eq in Ek. subst key. rewrite H1.
        destruct Hok as [Hn|(z & Hz)].
        + rewrite Hn. cbn [fst x with_mx]. rewrite dget_dset_same, Hp1. reflexivity.
        + rewrite Hz. cbn [fst]. rewrite H1. exact Hz.
      - assert (Hne: hdr_key l i <> key) by (intros E0; rewrite E0, ustr_eqb_refl in Ek; discriminate).
        destruct (dget (x mx s1) nm (hdr_key l i)) as [[z'|z'|t|]|]; cbn [fst x with_mx]; rewrite ?(dget_dset_other_key _ _ _ _ _ Hne), H1;
          destruct (dget (x mx s) nm key); reflexivity. }
    destruct (do_agg q blanks AND s1 l (First nm i)) as [s2 v] eqn:Ed. cbn [fst] in T.
    rewrite seq_eval_frame by exact Hpost. exact T.
  Qed.

  Definition first_line (i : nat) (key : ustring) (lines : list (Z * line ustring)) : option Z :=
    match find (fun nl => ustr_eqb (hdr_key (snd nl) i) key) lines with Some nl => Some (fst nl) | None => None end.

  Lemma fold_first nm i cs e key : first_once nm i cs -> forall lines s, Forall (fun nl : Z * line ustring => snd nl <> []) lines ->
    entry_ok (dget (x mx s) nm key) ->
    dget (x mx (fold_left (line_step ustring mx (core_m q blanks AND cs e)) lines s)) nm key =
      match dget (x mx s) nm key with Some v => Some v | None => option_map VI (first_line i key lines) end.
  Proof.
    intros Ht. induction lines as [|[n l] lines IH]; intros s Hnb Hok; [cbn; destruct (dget (x mx s) nm key); reflexivity|].
    inversion Hnb as [|nl0 r0 Hl Hr]; subst. cbn [snd] in Hl. cbn [fold_left].
    assert (Hx: dget (x mx (line_step ustring mx (core_m q blanks AND cs e) s (n, l))) nm key =
                match dget (x mx s) nm key with Some v => Some v | None => if ustr_eqb (hdr_key l i) key then Some (VI n) else None end).
    { unfold line_step. cbn [fst snd].
      set (s1 := mkRs mx n (scan_count mx s + 1) (match_count mx s) (match_count mx s) 0 false false (x mx s)).
      pose proof (line_first nm i cs e s1 l key Ht eq_refl Hl Hok) as H. cbn [x pln] in H.
      destruct (core_m q blanks AND cs e s1 l) as [s2 v]. cbn [fst] in H.
      destruct v; [unfold raise_match_count_if; destruct (_ =? _); cbn [x]; exact H|exact H]. }
    rewrite IH; [|exact Hr|].
    - rewrite Hx. unfold first_line. cbn [find snd fst].
      destruct (dget (x mx s) nm key) as [v|]; [reflexivity|]. destruct (ustr_eqb (hdr_key l i) key); reflexivity.
    - rewrite Hx. destruct Hok as [Hn|(z & Hz)]; [rewrite Hn|rewrite Hz; right; eexists; reflexivity].
      destruct (ustr_eqb (hdr_key l i) key); [right; eexists; reflexivity|left; reflexivity].
  Qed.

  (** first.nm(#i) once at top level, nothing else naming its dictionary: after ANY run the entry of a value is the
      line number of the first scanned line holding it, and values never scanned have no entry *)
  Theorem first_records_first_scanned sh (c : cfg) E cs (recs : list (line ustring)) nm i key :
    wf sh -> parse false (ast_of sh) = Some (scanner c) -> q_scan c = false -> end_line c = Some E ->
    end_of ustring recs = Some E -> will_run c = true -> first_once nm i cs ->
    dget (x mx (st ustring mx (run_from ustring mx (core_m q blanks AND cs (Some E)) c (rs0 mx (mkMx [] [] [])) None recs))) nm key =
    option_map VI (first_line i key (filter (want ustring sh) (number 0 recs))).
  Proof.
    intros Hwf Hp Hq He Hend Hw Ht.
    pose proof (core_run_is_fold sh c E cs recs (mkMx [] [] []) Hwf Hp Hq He Hend Hw) as H. unfold core in H. injection H as Hx _ _.
    rewrite Hx. rewrite (fold_first nm i cs (Some E) key Ht); [reflexivity| |left; reflexivity].
    apply Forall_forall. intros [n l] Hin. apply filter_In in Hin. destruct Hin as [_ Hwant].
    unfold want, nonblank in Hwant. cbn [fst snd] in *. apply andb_prop in Hwant. destruct Hwant as [_ Hnb].
    destruct l; [discriminate|discriminate].
  Qed.

  (** * subtotal() of a header by a header: per value, the total over the scanned lines holding it *)
  Definition subtotal_once (nm : Z) (i j : nat) (cs : list comp) : Prop :=
    exists pre post, cs = pre ++ CAgg (Subtotal nm i (NHdr j)) :: post /\
      Forall (fun c => writes_comp c <> Some nm) pre /\ Forall (fun c => writes_comp c <> Some nm) post.

  Lemma line_subtotal nm i j cs e s l key : subtotal_once nm i j cs -> stopped mx s = false -> l <> [] ->
    num_of (dget (x mx (fst (core_m q blanks AND cs e s l))) nm key) =
      num_of (dget (x mx s) nm key) + (if ustr_eqb (hdr_key l i) key then cell_num l j else 0).
  Proof.
    intros (pre & post & Hcs & Hpre & Hpost) Hs Hl.
    assert (Hb: (oeqb e (pln mx s) && is_nil l) = false) by (destruct l; [contradiction|apply andb_false_r]).
    rewrite (core_line_vote q blanks AND cs e s l Hs Hb). cbn [fst]. cbv beta.
    assert (He: forall k, dget (x mx (ensure cs s)) nm k = dget (x mx s) nm k)
      by (intros k; unfold ensure; destruct (frozen mx s); reflexivity).
    rewrite Hcs at 1. rewrite seq_eval_app. cbn [seq_eval].
    set (s1 := fst (seq_eval cst comp (ev l) AND pre (ensure cs s) (negb AND))).
    assert (H1: forall k, dget (x mx s1) nm k = dget (x mx s) nm k)
      by (intros k; unfold s1; rewrite seq_eval_frame by exact Hpre; apply He).
    pose proof (subtotal_step q blanks AND s1 l nm i (NHdr j)) as T. cbn zeta in T. destruct T as (T1 & T2).
    change (eval q blanks AND (CAgg (Subtotal nm i (NHdr j))) s1 l) with (do_agg q blanks AND s1 l (Subtotal nm i (NHdr j))).
    destruct (do_agg q blanks AND s1 l (Subtotal nm i (NHdr j))) as [s2 v] eqn:Ed. cbn [fst] in T1, T2.
    rewrite seq_eval_frame by exact Hpost.
    destruct (ustr_eqb (hdr_key l i) key) eqn:Ek.
    - apply ustr_eqb_eq in Ek. subst key. rewrite T1, H1, neval_hdr. reflexivity.
    - rewrite T2; [rewrite H1; lia|]. intros E0. rewrite E0, ustr_eqb_refl in Ek. discriminate.
  Qed.

  Definition subtotal_of (i j : nat) (key : ustring) (lines : list (Z * line ustring)) : Z :=
    fold_right (fun nl acc => (if ustr_eqb (hdr_key (snd nl) i) key then cell_num (snd nl) j else 0) + acc) 0 lines.

  Lemma fold_subtotal nm i j cs e key : subtotal_once nm i j cs -> forall lines s, Forall (fun nl : Z * line ustring => snd nl <> []) lines ->
    num_of (dget (x mx (fold_left (line_step ustring mx (core_m q blanks AND cs e)) lines s)) nm key) =
    num_of (dget (x mx s) nm key) + subtotal_of i j key lines.
  Proof.
    intros Ht. induction lines as [|[n l] lines IH]; intros s Hnb; [cbn; lia|].
    inversion Hnb as [|nl0 r0 Hl Hr]; subst. cbn [snd] in Hl. cbn [fold_left].
    rewrite (IH _ Hr).
    assert (Hx: num_of (dget (x mx (line_step ustring mx (core_m q blanks AND cs e) s (n, l))) nm key) =
                num_of (dget (x mx s) nm key) + (if ustr_eqb (hdr_key l i) key then cell_num l j else 0)).
    { unfold line_step. cbn [fst snd].
      set (s1 := mkRs mx n (scan_count mx s + 1) (match_count mx s) (match_count mx s) 0 false false (x mx s)).
      pose proof (line_subtotal nm i j cs e s1 l key Ht eq_refl Hl) as H. cbn [x] in H.
      destruct (core_m q blanks AND cs e s1 l) as [s2 v]. cbn [fst] in H.
      destruct v; [unfold raise_match_count_if; destruct (_ =? _); cbn [x]; exact H|exact H]. }
    rewrite Hx. cbn [subtotal_of fold_right snd]. fold (subtotal_of i j key lines). lia.
  Qed.

  Theorem subtotal_totals_scanned sh (c : cfg) E cs (recs : list (line ustring)) x0 nm i j key :
    wf sh -> parse false (ast_of sh) = Some (scanner c) -> q_scan c = false -> end_line c = Some E ->
    end_of ustring recs = Some E -> will_run c = true -> subtotal_once nm i j cs ->
    num_of (dget (x mx (st ustring mx (run_from ustring mx (core_m q blanks AND cs (Some E)) c (rs0 mx x0) None recs))) nm key) =
    num_of (dget x0 nm key) + subtotal_of i j key (filter (want ustring sh) (number 0 recs)).
  Proof.
    intros Hwf Hp Hq He Hend Hw Ht.
    pose proof (core_run_is_fold sh c E cs recs x0 Hwf Hp Hq He Hend Hw) as H. unfold core in H. injection H as Hx _ _.
    rewrite Hx. rewrite (fold_subtotal nm i j cs (Some E) key Ht); [reflexivity|].
    apply Forall_forall. intros [n l] Hin. apply filter_In in Hin. destruct Hin as [_ Hwant].
    unfold want, nonblank in Hwant. cbn [fst snd] in *. apply andb_prop in Hwant. destruct Hwant as [_ Hnb].
    destruct l; [discriminate|discriminate].
  Qed.
End CoreRun.
