(** Model of the match-part language (csvpath/matching/lark_parser.py GRAMMAR and
    lark_transformer.py): tokens, a deterministic lexer (each terminal's longest match, whitespace
    ignored), the component trees, their rendering with arbitrary layout, and a recursive-descent
    parser for the twelve rules.  No proofs here. *)
From Coq Require Import ZArith List Bool.
From V Require Import Csv.CsvModel Data.DataModel.
Import ListNotations.
Open Scope Z_scope.

Definition is_letter (c : Z) : bool := ((65 <=? c) && (c <=? 90)) || ((97 <=? c) && (c <=? 122)).
Definition is_digit (c : Z) : bool := (48 <=? c) && (c <=? 57).
(** [a-zA-Z-0-9\._] : names of headers, variables, references, functions (with their qualifiers) *)
Definition idc (c : Z) : bool := is_letter c || is_digit c || (c =? 46) || (c =? 95) || (c =? 45).
Definition hqc (c : Z) : bool := idc c || (c =? 32).            (* inside a quoted header name *)
Definition wsc (c : Z) : bool := (c =? 32) || (c =? 9) || (c =? 10) || (c =? 13) || (c =? 12).

Inductive tok :=
  | TLB | TRB | TLP | TRP | TComma | TAssign | TEq | TWhen
  | THdr (s : ustring) | THdrQ (s : ustring) | TVar (s : ustring) | TRef (s : ustring) | TName (s : ustring)
  | TStr (s : ustring) | TNum (neg : bool) (ip : ustring) (fp : option ustring) | TComment (s : ustring)
  | TRegex (s : ustring).                    (* /.../ : REGEX_INNER, the text between the slashes *)

Fixpoint span (p : Z -> bool) (l : ustring) : ustring * ustring :=
  match l with c :: r => if p c then let (a, b) := span p r in (c :: a, b) else ([], l) | [] => ([], []) end.

Definition render_tok (t : tok) : ustring :=
  match t with
  | TLB => [91] | TRB => [93] | TLP => [40] | TRP => [41] | TComma => [44] | TAssign => [61] | TEq => [61; 61] | TWhen => [45; 62]
  | THdr s => 35 :: s | THdrQ s => 35 :: 34 :: s ++ [34] | TVar s => 64 :: s | TRef s => 36 :: s | TName s => s
  | TStr s => 34 :: s ++ [34]
  | TNum neg ip fp => (if neg then [45] else []) ++ ip ++ (match fp with Some f => 46 :: f | None => [] end)
  | TComment s => 126 :: s ++ [126]
  | TRegex s => 47 :: s ++ [47]
  end.

Definition nonempty (s : ustring) : bool := match s with [] => false | _ => true end.

Definition lex_number (neg : bool) (l : ustring) : option (tok * ustring) :=
  let (ip, r1) := span is_digit l in
  if nonempty ip then
    match r1 with
    | c :: r2 => if (c =? 46) && (match r2 with d :: _ => is_digit d | [] => false end)
                 then let (fp, r3) := span is_digit r2 in Some (TNum neg ip (Some fp), r3)
                 else Some (TNum neg ip None, r1)
    | [] => Some (TNum neg ip None, r1)
    end
  else None.

Definition lex_delimited (q : Z) (mk : ustring -> tok) (r : ustring) : option (tok * ustring) :=
  let (s, rest) := span (fun c => negb (c =? q)) r in
  match rest with c :: rest' => if c =? q then Some (mk s, rest') else None | [] => None end.

(** REGEX_INNER /([^\/\\]|\\.)*/ : any character but slash and backslash, or a backslash and the character after it; the closing slash ends it *)
Fixpoint lex_regex (esc : bool) (l : ustring) : option (ustring * ustring) :=
  match l with
  | [] => None
  | c :: r =>
      let keep := fun o : option (ustring * ustring) => match o with Some (s, rest) => Some (c :: s, rest) | None => None end in
      if esc then keep (lex_regex false r)
      else if c =? 47 then Some ([], r)
      else if c =? 92 then keep (lex_regex true r)
      else keep (lex_regex false r)
  end.

Definition lex_id (mk : ustring -> tok) (r : ustring) : option (tok * ustring) :=
  let (s, rest) := span idc r in if nonempty s then Some (mk s, rest) else None.

(** one token at the head of [l] (no leading whitespace) *)
Definition lex1 (l : ustring) : option (tok * ustring) :=
  match l with
  | [] => None
  | c :: r =>
      if c =? 91 then Some (TLB, r) else if c =? 93 then Some (TRB, r)
      else if c =? 40 then Some (TLP, r) else if c =? 41 then Some (TRP, r)
      else if c =? 44 then Some (TComma, r)
      else if c =? 61 then (match r with d :: r' => if d =? 61 then Some (TEq, r') else Some (TAssign, r) | [] => Some (TAssign, r) end)
      else if c =? 45 then (match r with d :: r' => if d =? 62 then Some (TWhen, r') else lex_number true r | [] => None end)
      else if c =? 35 then (match r with
                            | d :: r' => if d =? 34
                                         then (let (s, rest) := span hqc r' in
                                               match rest with e :: rest' => if (e =? 34) && nonempty s then Some (THdrQ s, rest') else None | [] => None end)
                                         else lex_id THdr r
                            | [] => None end)
      else if c =? 64 then lex_id TVar r
      else if c =? 36 then lex_id TRef r
      else if c =? 34 then lex_delimited 34 TStr r
      else if c =? 126 then lex_delimited 126 TComment r
      else if is_digit c then lex_number false l
      else if is_letter c then lex_id TName l
      else if c =? 47 then (match lex_regex false r with Some (s, rest) => Some (TRegex s, rest) | None => None end)
      else None
  end.

Fixpoint skip_ws (l : ustring) : ustring := match l with c :: r => if wsc c then skip_ws r else l | [] => [] end.

Fixpoint lex (fuel : nat) (l : ustring) : option (list tok) :=
  match fuel with
  | O => match skip_ws l with [] => Some [] | _ => None end
  | S f =>
      match skip_ws l with
      | [] => Some []
      | l' => match lex1 l' with Some (t, rest) => option_map (cons t) (lex f rest) | None => None end
      end
  end.

(** * component trees *)
Inductive arg :=
  | ATermS (s : ustring) | ATermN (neg : bool) (ip : ustring) (fp : option ustring) | ATermR (s : ustring)
  | AVar (s : ustring) | AHdr (s : ustring) | AHdrQ (s : ustring) | ARef (s : ustring)
  | AFun (f : ustring) (args : list arg)
  | AEq (l r : arg).                          (* an equality used as an argument: left == right *)

Inductive action := ActFun (f : ustring) (args : list arg) | ActAssign (v : ustring) (rhs : arg).
Inductive comp :=
  | CLeft (a : arg) (w : option action)       (* HEADER | VARIABLE | function | REFERENCE, optionally -> action *)
  | CEq (l r : arg) (w : option action)
  | CAssign (v : ustring) (rhs : arg).

(** tokens of a tree *)
Fixpoint toks_arg (a : arg) : list tok :=
  match a with
  | ATermS s => [TStr s] | ATermN n i f => [TNum n i f] | ATermR s => [TRegex s]
  | AVar s => [TVar s] | AHdr s => [THdr s] | AHdrQ s => [THdrQ s] | ARef s => [TRef s]
  | AFun f args => TName f :: TLP :: (fix go (l : list arg) : list tok :=
                                        match l with [] => [] | [x] => toks_arg x | x :: r => toks_arg x ++ TComma :: go r end) args ++ [TRP]
  | AEq l r => toks_arg l ++ TEq :: toks_arg r
  end.
Fixpoint toks_args (l : list arg) : list tok :=
  match l with [] => [] | [x] => toks_arg x | x :: r => toks_arg x ++ TComma :: toks_args r end.
Definition toks_action (a : action) : list tok :=
  match a with ActFun f args => TName f :: TLP :: toks_args args ++ [TRP] | ActAssign v rhs => TVar v :: TAssign :: toks_arg rhs end.
Definition toks_when (w : option action) : list tok := match w with Some a => TWhen :: toks_action a | None => [] end.
Definition toks_comp (c : comp) : list tok :=
  match c with
  | CLeft a w => toks_arg a ++ toks_when w
  | CEq l r w => toks_arg l ++ TEq :: toks_arg r ++ toks_when w
  | CAssign v rhs => TVar v :: TAssign :: toks_arg rhs
  end.
Definition toks_match (cs : list comp) : list tok := TLB :: flat_map toks_comp cs ++ [TRB].

(** * recursive descent over the tokens; comments are expressions that build nothing *)
Definition is_left (a : arg) : bool := match a with AVar _ | AHdr _ | AHdrQ _ | AFun _ _ => true | _ => false end.

(** the argument list of a function, given the parser for one argument: a ("," a)* ")" *)
Fixpoint parse_args_with (pa : list tok -> option (arg * list tok)) (k : nat) (ts : list tok) (acc : list arg) : option (list arg * list tok) :=
  match k with
  | O => None
  | S k' => match pa ts with
            | Some (a, TComma :: r') => parse_args_with pa k' r' (acc ++ [a])
            | Some (a, TRP :: r') => Some (acc ++ [a], r')
            | _ => None
            end
  end.

Definition parse_atom (pa : list tok -> option (arg * list tok)) (k : nat) (ts : list tok) : option (arg * list tok) :=
  match ts with
  | TStr s :: r => Some (ATermS s, r)
  | TNum n i fp :: r => Some (ATermN n i fp, r)
  | TRegex s :: r => Some (ATermR s, r)
  | TVar s :: r => Some (AVar s, r)
  | THdr s :: r => Some (AHdr s, r)
  | THdrQ s :: r => Some (AHdrQ s, r)
  | TRef s :: r => Some (ARef s, r)
  | TName n :: TLP :: TRP :: r' => Some (AFun n [], r')
  | TName n :: TLP :: r => match parse_args_with pa k r [] with Some (l, r') => Some (AFun n l, r') | None => None end
  | _ => None
  end.

Fixpoint parse_arg (fuel : nat) (ts : list tok) : option (arg * list tok) :=
  match fuel with
  | O => None
  | S f =>
      match parse_atom (parse_arg f) f ts with
      | Some (a, TEq :: r) => if is_left a then match parse_arg f r with Some (b, r') => Some (AEq a b, r') | None => None end else None
      | other => other
      end
  end.

Definition parse_action (fuel : nat) (ts : list tok) : option (action * list tok) :=
  match ts with
  | TVar v :: TAssign :: r => match parse_arg fuel r with Some (b, r') => Some (ActAssign v b, r') | None => None end
  | _ => match parse_arg fuel ts with Some (AFun n args, r') => Some (ActFun n args, r') | _ => None end
  end.

Definition parse_when (fuel : nat) (ts : list tok) : option (option action * list tok) :=
  match ts with
  | TWhen :: r => match parse_action fuel r with Some (a, r') => Some (Some a, r') | None => None end
  | _ => Some (None, ts)
  end.

Definition parse_comp (fuel : nat) (ts : list tok) : option (comp * list tok) :=
  match ts with
  | TVar v :: TAssign :: r => match parse_arg fuel r with Some (b, r') => Some (CAssign v b, r') | None => None end
  | _ =>
      match parse_arg fuel ts with
      | Some (AEq l r, rest) => match parse_when fuel rest with Some (w, rest') => Some (CEq l r w, rest') | None => None end
      | Some (a, rest) =>
          if is_left a || (match a with ARef _ => true | _ => false end)
          then match parse_when fuel rest with Some (w, rest') => Some (CLeft a w, rest') | None => None end
          else None
      | None => None
      end
  end.

Fixpoint parse_comps (fuel : nat) (ts : list tok) : option (list comp) :=
  match fuel with
  | O => None
  | S f =>
      match ts with
      | [TRB] => Some []
      | TComment _ :: r => parse_comps f r
      | _ => match parse_comp fuel ts with Some (c, r) => option_map (cons c) (parse_comps f r) | None => None end
      end
  end.

Definition parse_match (ts : list tok) : option (list comp) :=
  match ts with TLB :: r => parse_comps (S (length ts)) r | _ => None end.

(** the whole pipeline on text *)
Definition parse_text (s : ustring) : option (list comp) :=
  match lex (S (length s)) s with Some ts => parse_match ts | None => None end.
