(** count.d(cond) against its specification, for any surrounding CORE csvpath, file and scan: after a run the dictionary holds,
    under True / False, the number of SCANNED lines on which cond holds / does not hold — not the matched ones (the assignment
    '@v = count.d(cond)' is not an onmatch assignment).  For conditions over the line alone (headers, literals). *)
From Coq Require Import ZArith List Bool Lia.
From V Require Import Csv.CsvModel Data.DataModel Scan.ScanModel Scan.ScanSpec Run.RunLoop Run.RunProofs Run.RunFold
  Match.Adjudicate Match.AdjProofs Match.Core Match.CoreProofs Match.AggProofs Match.CoreRun.
Import ListNotations.
Open Scope Z_scope.

(** expressions that read the line only *)
Fixpoint sl (e : sexp) : bool :=
  match e with SLit _ | SHdr _ => true | SLower t | SUpper t => sl t | SConcat a b => sl a && sl b | SVar _ => false end.
Fixpoint nl (e : nexp) : bool :=
  match e with
  | NLit _ | NHdr _ => true | NInt a => nl a | NAdd a b | NSub a b | NMul a b => nl a && nl b | NLen t => sl t
  | _ => false
  end.
Fixpoint bl (b : bexp) : bool :=
  match b with
  | BCmp _ a c | BEq a c | BEqEq a c => nl a && nl c
  | BCmpS _ a c | BEqEqS a c => sl a && sl c
  | BBetween e a c => nl e && nl a && nl c
  | BExists _ | BEmpty _ | BBare _ | BYes | BNo => true
  | BIn t _ | BStarts t _ => sl t
  | BNot a => bl a | BAnd a c | BOr a c => bl a && bl c
  | BVarSet _ => false
  | BAllCells _ => true
  end.

Section CountIfRun.
  Variable q : quirks.
  Variable blanks : list bool.
  Variable AND : bool.

  Lemma seval_lo l e : sl e = true -> forall s s' : cst, seval s l e = seval s' l e.
  Proof.
    induction e as [t|i|t IH|t IH|a IHa b IHb|v]; cbn [sl seval]; intros H s s'; try reflexivity; try discriminate.
    - rewrite (IH H s s'). reflexivity.
    - rewrite (IH H s s'). reflexivity.
    - apply andb_prop in H. destruct H as [Ha Hb]. rewrite (IHa Ha s s'), (IHb Hb s s'). reflexivity.
  Qed.

  Lemma neval_lo l e : nl e = true -> forall s s' : cst, neval blanks s l e = neval blanks s' l e.
  Proof.
    induction e as [z|i|a IH|a IHa b IHb|a IHa b IHb|a IHa b IHb|v|t| | | | |v k]; cbn [nl neval]; intros H s s'; try reflexivity; try discriminate.
    - rewrite (IH H s s'). reflexivity.
    - apply andb_prop in H. destruct H as [Ha Hb]. rewrite (IHa Ha s s'), (IHb Hb s s'). reflexivity.
    - apply andb_prop in H. destruct H as [Ha Hb]. rewrite (IHa Ha s s'), (IHb Hb s s'). reflexivity.
    - apply andb_prop in H. destruct H as [Ha Hb]. rewrite (IHa Ha s s'), (IHb Hb s s'). reflexivity.
    - rewrite (seval_lo l t H s s'). reflexivity.
  Qed.

  Lemma nvalue_lo l e : nl e = true -> forall s s' : cst, nvalue blanks s l e = nvalue blanks s' l e.
  Proof.
    intros H s s'. destruct e; try (cbn [nl] in H; discriminate); cbn [nvalue]; try reflexivity;
      rewrite (neval_lo l _ H s s'); reflexivity.
  Qed.

  Lemma beval_lo l b : bl b = true -> forall s s' : cst, beval q blanks s l b = beval q blanks s' l b.
  Proof.
    induction b as [o a c|o a c|a c|a c|a c|e a c|i|i|i|t opts|t p|a IH|a IHa c IHc|a IHa c IHc| | |v|nh]; cbn [bl beval]; intros H s s';
      try reflexivity; try discriminate.
    - apply andb_prop in H. destruct H as [Ha Hc]. unfold text_of.
      rewrite (neval_lo l a Ha s s'), (neval_lo l c Hc s s'), (nvalue_lo l a Ha s s'), (nvalue_lo l c Hc s s'). reflexivity.
    - apply andb_prop in H. destruct H as [Ha Hc]. rewrite (seval_lo l a Ha s s'), (seval_lo l c Hc s s'). reflexivity.
    - apply andb_prop in H. destruct H as [Ha Hc]. cbv zeta. rewrite (neval_lo l a Ha s s'), (neval_lo l c Hc s s'), (nvalue_lo l a Ha s s'), (nvalue_lo l c Hc s s'). reflexivity.
    - apply andb_prop in H. destruct H as [Ha Hc]. cbv zeta. rewrite (nvalue_lo l a Ha s s'), (nvalue_lo l c Hc s s'). reflexivity.
    - apply andb_prop in H. destruct H as [Ha Hc]. rewrite (seval_lo l a Ha s s'), (seval_lo l c Hc s s'). reflexivity.
    - apply andb_prop in H. destruct H as [H Hc]. apply andb_prop in H. destruct H as [He Ha].
      cbv zeta. rewrite (neval_lo l e He s s'), (neval_lo l a Ha s s'), (neval_lo l c Hc s s'), (nvalue_lo l e He s s'), (nvalue_lo l a Ha s s'), (nvalue_lo l c Hc s s'). reflexivity.
    - rewrite (seval_lo l t H s s'). reflexivity.
    - rewrite (seval_lo l t H s s'). reflexivity.
    - rewrite (IH H s s'). reflexivity.
    - apply andb_prop in H. destruct H as [Ha Hc]. rewrite (IHa Ha s s'), (IHc Hc s s'). reflexivity.
    - apply andb_prop in H. destruct H as [Ha Hc]. rewrite (IHa Ha s s'), (IHc Hc s s'). reflexivity.
  Qed.

  Notation ev l := (fun (c : comp) (s : cst) => eval q blanks AND c s l).

  (** the csvpath has '@v = count.nm(c)' once at top level, and nothing else names its dictionary *)
  Definition count_if_once (v nm : Z) (c : bexp) (cs : list comp) : Prop :=
    exists pre post, cs = pre ++ CAct (Agg (CountIf v nm c)) :: post /\
      Forall (fun c0 => writes_comp c0 <> Some nm) pre /\ Forall (fun c0 => writes_comp c0 <> Some nm) post.

  Definition answer_key (s : cst) (l : line ustring) (c : bexp) : ustring := if beval q blanks s l c then py_true else py_false.

  (** one scanned line adds one to the entry of the line's answer and nothing else in that dictionary *)
  Lemma line_count_if v nm c cs e s l key : count_if_once v nm c cs -> bl c = true -> stopped mx s = false -> l <> [] ->
    dget (x mx (fst (core_m q blanks AND cs e s l))) nm key =
      if ustr_eqb (answer_key s l c) key then Some (VI (num_of (dget (x mx s) nm key) + 1)) else dget (x mx s) nm key.
  Proof.
    intros (pre & post & Hcs & Hpre & Hpost) Hlo Hs Hl.
    assert (Hb: (oeqb e (pln mx s) && is_nil l) = false) by (destruct l; [contradiction|apply andb_false_r]).
    rewrite (core_line_vote q blanks AND cs e s l Hs Hb). cbn [fst]. cbv beta.
    assert (He: forall k, dget (x mx (ensure cs s)) nm k = dget (x mx s) nm k)
      by (intros k; unfold ensure; destruct (frozen mx s); reflexivity).
    rewrite Hcs at 1. rewrite (seq_eval_app q blanks AND). cbn [seq_eval]. cbn [eval do_action].
    set (s1 := fst (seq_eval cst comp (ev l) AND pre (ensure cs s) (negb AND))).
    set (f1 := snd (seq_eval cst comp (ev l) AND pre (ensure cs s) (negb AND))).
    assert (H1: forall k, dget (x mx s1) nm k = dget (x mx s) nm k)
      by (intros k; unfold s1; rewrite (seq_eval_frame q blanks AND) by exact Hpre; apply He).
    pose proof (count_if_step q blanks AND s1 l v nm c) as T. cbn zeta in T. destruct T as (T1 & _ & T2 & _).
    rewrite (seq_eval_frame q blanks AND) by exact Hpost. cbn [fst].
    unfold answer_key. rewrite (beval_lo l c Hlo s s1). unfold s1 in *. clear s1 f1.
    match goal with |- context [ustr_eqb ?k key] => destruct (ustr_eqb k key) eqn:Ek end.
    - apply ustr_eqb_eq in Ek. subst key. rewrite T1, H1. reflexivity.
    - rewrite T2; [apply H1|]. intros E0. rewrite E0, ustr_eqb_refl in Ek. discriminate.
  Qed.

  (** the number of lines whose answer is [key] (the state argument is irrelevant for a line-only condition) *)
  Definition count_answers (c : bexp) (key : ustring) (s0 : cst) (lines : list (Z * line ustring)) : Z :=
    Z.of_nat (length (filter (fun nl0 => ustr_eqb (answer_key s0 (snd nl0) c) key) lines)).

  Lemma fold_count_if v nm c cs e key s0 : count_if_once v nm c cs -> bl c = true -> forall lines s,
    Forall (fun nl0 : Z * line ustring => snd nl0 <> []) lines ->
    num_of (dget (x mx (fold_left (line_step ustring mx (core_m q blanks AND cs e)) lines s)) nm key) =
    num_of (dget (x mx s) nm key) + count_answers c key s0 lines.
  Proof.
    intros Ht Hlo. induction lines as [|[n l] lines IH]; intros s Hnb; [unfold count_answers; cbn; lia|].
    inversion Hnb as [|nl0 r0 Hl Hr]; subst. cbn [snd] in Hl. cbn [fold_left].
    rewrite (IH _ Hr). unfold count_answers. cbn [filter snd].
    assert (Hx: dget (x mx (line_step ustring mx (core_m q blanks AND cs e) s (n, l))) nm key =
                if ustr_eqb (answer_key s0 l c) key then Some (VI (num_of (dget (x mx s) nm key) + 1)) else dget (x mx s) nm key).
    { unfold line_step. cbn [fst snd].
      set (s1 := mkRs mx n (scan_count mx s + 1) (match_count mx s) (match_count mx s) 0 false false (x mx s)).
      pose proof (line_count_if v nm c cs e s1 l key Ht Hlo eq_refl Hl) as H. cbn [x] in H.
      unfold answer_key in *. rewrite (beval_lo l c Hlo s0 s1).
      destruct (core_m q blanks AND cs e s1 l) as [s2 b]. cbn [fst] in H.
      destruct b; [unfold raise_match_count_if; destruct (_ =? _); cbn [x]; exact H|exact H]. }
    rewrite Hx. destruct (ustr_eqb (answer_key s0 l c) key); cbn [length num_of]; lia.
  Qed.

  (** * count.nm(cond) counts the SCANNED lines per answer of cond *)
  Theorem count_if_counts_scanned sh (cf : cfg) E cs (recs : list (line ustring)) x0 v nm c key (s0 : cst) :
    wf sh -> parse false (ast_of sh) = Some (scanner cf) -> q_scan cf = false -> end_line cf = Some E ->
    end_of ustring recs = Some E -> will_run cf = true -> count_if_once v nm c cs -> bl c = true ->
    num_of (dget (x mx (st ustring mx (run_from ustring mx (core_m q blanks AND cs (Some E)) cf (rs0 mx x0) None recs))) nm key) =
    num_of (dget x0 nm key) + count_answers c key s0 (filter (want ustring sh) (number 0 recs)).
  Proof.
    intros Hwf Hp Hq He Hend Hw Ht Hlo.
    pose proof (core_run_is_fold q blanks AND sh cf E cs recs x0 Hwf Hp Hq He Hend Hw) as H. unfold core in H. injection H as Hx _ _.
    rewrite Hx. rewrite (fold_count_if v nm c cs (Some E) key s0 Ht Hlo); [reflexivity|].
    apply Forall_forall. intros [n l] Hin. apply filter_In in Hin. destruct Hin as [_ Hwant].
    unfold want, nonblank in Hwant. cbn [fst snd] in *. apply andb_prop in Hwant. destruct Hwant as [_ Hnb].
    destruct l; [discriminate|discriminate].
  Qed.

  (** the two entries together: every scanned line is counted once *)
  Corollary count_if_total sh (cf : cfg) E cs (recs : list (line ustring)) x0 v nm c (s0 : cst) :
    wf sh -> parse false (ast_of sh) = Some (scanner cf) -> q_scan cf = false -> end_line cf = Some E ->
    end_of ustring recs = Some E -> will_run cf = true -> count_if_once v nm c cs -> bl c = true ->
    dget x0 nm py_true = None -> dget x0 nm py_false = None ->
    let fin := x mx (st ustring mx (run_from ustring mx (core_m q blanks AND cs (Some E)) cf (rs0 mx x0) None recs)) in
    num_of (dget fin nm py_true) + num_of (dget fin nm py_false) = Z.of_nat (length (filter (want ustring sh) (number 0 recs))).
  Proof.
    intros Hwf Hp Hq He Hend Hw Ht Hlo Z1 Z2. cbn zeta.
    rewrite (count_if_counts_scanned sh cf E cs recs x0 v nm c py_true s0 Hwf Hp Hq He Hend Hw Ht Hlo).
    rewrite (count_if_counts_scanned sh cf E cs recs x0 v nm c py_false s0 Hwf Hp Hq He Hend Hw Ht Hlo).
    rewrite Z1, Z2. cbn [num_of]. unfold count_answers, answer_key.
    assert (E1: ustr_eqb py_true py_true = true) by reflexivity. assert (E2: ustr_eqb py_true py_false = false) by reflexivity.
    assert (E3: ustr_eqb py_false py_true = false) by reflexivity. assert (E4: ustr_eqb py_false py_false = true) by reflexivity.
    induction (filter (want ustring sh) (number 0 recs)) as [|[n l] r IH]; [reflexivity|].
    cbn [filter snd]. destruct (beval q blanks s0 l c); rewrite ?E1, ?E2, ?E3, ?E4; cbn [length]; lia.
  Qed.
End CountIfRun.
