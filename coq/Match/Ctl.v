(** A concrete fragment of the match language — the control functions of C13 among
    side-effecting components — as an instance of the adjudication loop and of the run loop:
      push("s<i>", line_number())   stop()   skip()   advance(n)
      <cond> -> <act>   and   <cond>.nocontrib -> <act>   and bare <cond>
      stop(<cond>)   skip(<cond>)   fail_and_stop(<cond>)
      cond ::= eq(line_number(),k) | gt(line_number(),k) | last() | yes() | no()
    AND mode.  Transcribes Stopper/Skipper/Advance/Last/Push._decide_match, Equality._do_when,
    Function.matches (frozen check), Matcher.matches/_do_lasts.  No proofs here. *)
From Coq Require Import ZArith List Bool.
From V Require Import Scan.ScanModel Run.RunLoop Match.Adjudicate.
Import ListNotations.
Open Scope Z_scope.

Inductive cond := EqLine (k : Z) | GtLine (k : Z) | IsLast | Yes | No | IsValid | IsFailed.
Inductive act := AStop | ASkip | AAdv (n : Z) | APush (i : Z) | AFail | AFailStop.
Inductive comp := CAct (a : act) | CWhen (c : cond) (nocontrib : bool) (a : act) | CCond (c : cond)
  | CArg (c : cond) (a : act).     (* the one-argument forms stop(cond), skip(cond), fail_and_stop(cond): act when cond holds; the vote is neutral *)

(** what the match part owns: the pushes made so far (stack id, line number) and Matcher.skip *)
(** ... the verdict CsvPath.is_valid and the lines on which a fail()/fail_and_stop() executed *)
Record mx := mkMx { log : list (Z * Z); skipf : bool; valid : bool; fails : list Z }.
Definition cst := rs mx.

Definition with_x (s : cst) (x' : mx) : cst :=
  mkRs mx (pln mx s) (scan_count mx s) (match_count mx s) (cur_mc mx s) (adv mx s) (stopped mx s) (frozen mx s) x'.
Definition with_adv (s : cst) (n : Z) : cst :=
  mkRs mx (pln mx s) (scan_count mx s) (match_count mx s) (cur_mc mx s) n (stopped mx s) (frozen mx s) (x mx s).
Definition with_frozen (s : cst) (b : bool) : cst :=
  mkRs mx (pln mx s) (scan_count mx s) (match_count mx s) (cur_mc mx s) (adv mx s) (stopped mx s) b (x mx s).

Definition skp (s : cst) : bool := skipf (x mx s).
Definition clear_skip (s : cst) : cst := with_x s (mkMx (log (x mx s)) false (valid (x mx s)) (fails (x mx s))).

Section Ctl.
  Variable c : cfg.

  Definition is_last_cond (cd : cond) : bool := match cd with IsLast => true | _ => false end.

  (** Function.matches: a frozen path makes every function except last() a no-op voting True *)
  Definition eval_cond (cd : cond) (s : cst) : bool :=
    match cd with
    | IsLast => oeqb (end_line c) (pln mx s) || is_last (q_scan c) (scanner c) (end_line c) (pln mx s)
    | _ => if frozen mx s then true else
           match cd with
           | EqLine k => pln mx s =? k
           | GtLine k => k <? pln mx s
           | Yes => true
           | No => false
           | IsLast => true
           | IsValid => valid (x mx s)
           | IsFailed => negb (valid (x mx s))
           end
    end.

  Definition fail_now (s : cst) : cst :=
    with_x s (mkMx (log (x mx s)) (skipf (x mx s)) false (fails (x mx s) ++ [pln mx s])).

  (** fail() overrides a frozen path (Fail.override_frozen); every other function is a no-op on it *)
  Definition do_act (a : act) (s : cst) : cst :=
    match a with
    | AFail => fail_now s
    | _ =>
      if frozen mx s then s else
      match a with
      | AStop => set_stopped mx s
      | ASkip => with_x s (mkMx (log (x mx s)) true (valid (x mx s)) (fails (x mx s)))
      | AAdv n => with_adv s n
      | APush i => with_x s (mkMx (log (x mx s) ++ [(i, pln mx s)]) (skipf (x mx s)) (valid (x mx s)) (fails (x mx s)))
      | AFailStop => fail_now (set_stopped mx s)
      | AFail => s
      end
    end.

  Definition eval (cm : comp) (s : cst) : cst * bool :=
    match cm with
    | CAct a => (do_act a s, true)
    | CCond cd => (s, eval_cond cd s)
    | CWhen cd nc a =>
        if eval_cond cd s then
          if is_last_cond cd
          then (with_frozen (do_act a (with_frozen s false)) true, true)   (* override_frozen *)
          else (do_act a s, true)
        else (s, nc)
    | CArg cd a =>
        if frozen mx s then (s, true)
        else if eval_cond cd s then (do_act a s, true) else (s, true)
    end.

  (** Matcher._do_lasts on the blank final record: only 'last() -> act' components run *)
  Fixpoint do_lasts (cs : list comp) (s : cst) : cst :=
    match cs with
    | [] => s
    | CWhen IsLast nc a :: r => do_lasts r (fst (eval (CWhen IsLast nc a) s))
    | _ :: r => do_lasts r s
    end.

  Definition ctl_m (q_skip : bool) (cs : list comp) (s : cst) (l : line Z) : cst * bool :=
    if oeqb (end_line c) (pln mx s) && is_nil l then (do_lasts cs s, true)
    else let '(s', b, _) := matches cst comp (stopped mx) skp clear_skip eval (fun s => s) q_skip true cs s in (s', b).
End Ctl.

Definition recs_of (bl : list bool) : list (line Z) :=
  map (fun ib : Z * bool => if snd ib then [] else [fst ib]) (number 0 bl).

Definition ctl_run (q_skip cw : bool) (sc0 : sc) (cs : list comp) (blanks : list bool) : ls Z mx :=
  let recs := recs_of blanks in
  let c := mkCfg sc0 false (end_of Z recs) cw true false true in
  collect Z mx (ctl_m c q_skip cs) c (mkMx [] false true []) recs.
