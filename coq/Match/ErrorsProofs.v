From Coq Require Import ZArith List Bool Lia.
From V Require Import Match.Errors.
Import ListNotations.
Open Scope Z_scope.

(** the outcome of handling one error is the conjunction of the flags, each flag being the
    csvpath's own validation-mode setting when it has one and the configured policy otherwise *)
Theorem handle_outcome p v s line :
  let s' := mkHs (if p_collect p then h_errors s ++ [line] else h_errors s)
                 (h_stopped s || flag (v_stop v) (p_stop p))
                 (h_valid s && negb (flag (v_fail v) (p_fail p)))
                 (if flag (v_print v) (p_print p) then h_printed s ++ [line] else h_printed s) in
  handle false p v s line = (if flag (v_raise v) (p_raise p) then Raised s' else Done s').
Proof. reflexivity. Qed.

(** quiet changes nothing observable *)
Theorem quiet_is_silent p v s line :
  handle false p v s line = handle false (mkPol (p_raise p) (p_collect p) (p_stop p) (p_fail p) (p_print p) (negb (p_quiet p))) v s line.
Proof. reflexivity. Qed.

(** the verdict never returns to valid, the stop flag never drops, records and printouts only grow *)
Theorem handle_monotone q p v s line s' : (handle q p v s line = Done s' \/ handle q p v s line = Raised s' \/ handle q p v s line = Crashed s') ->
  (h_valid s = false -> h_valid s' = false) /\ (h_stopped s = true -> h_stopped s' = true) /\
  (exists t, h_errors s' = h_errors s ++ t) /\ (exists t, h_printed s' = h_printed s ++ t).
Proof.
  unfold handle. destruct (q && p_quiet p).
  - intros [H|[H|H]]; inversion H; subst. repeat split; auto; exists []; rewrite app_nil_r; reflexivity.
  - destruct (do_i_raise p v); intros [H|[H|H]]; inversion H; subst; cbn;
      (split; [intros ->; reflexivity|]); (split; [intros ->; reflexivity|]);
      (split; [destruct (p_collect p); eexists; [reflexivity|rewrite app_nil_r; reflexivity]|]);
      destruct (do_i_print p v); eexists; try reflexivity; rewrite app_nil_r; reflexivity.
Qed.

(** a csvpath's validation mode is a function of its own comment text only *)
Theorem vmode_no_wins has_yes : vm_setting true has_yes = Some false.
Proof. reflexivity. Qed.

(** a component with an error does not match, unless validation-mode says match *)
Theorem error_votes_false raised pending child : (raised || pending) = true -> expr_vote false raised pending child = false.
Proof. intros H. unfold expr_vote. rewrite H. cbn. destruct raised; reflexivity. Qed.

Theorem no_error_votes_child mm child : expr_vote mm false false child = child.
Proof. unfold expr_vote. cbn. destruct child; reflexivity. Qed.

(** D5 *)
Theorem quiet_crash_refuted :
  handle true (mkPol false true false false false true) (mkVm None None None None None) (mkHs [] false true []) 2
    = Crashed (mkHs [] false true []) /\
  handle false (mkPol false true false false false true) (mkVm None None None None None) (mkHs [] false true []) 2
    = Done (mkHs [2] false true []).
Proof. split; reflexivity. Qed.
