(** The recursive-descent parser reads back the tokens of every well-formed component tree, for any
    nesting depth and any number of arguments and components. *)
From Coq Require Import ZArith List Bool Lia.
From V Require Import Csv.CsvModel Data.DataModel Match.Syntax.
Import ListNotations.
Open Scope Z_scope.

(** induction principle for the nested type *)
Section ArgInd.
  Variable P : arg -> Prop.
  Hypothesis HS : forall s, P (ATermS s).
  Hypothesis HN : forall n i f, P (ATermN n i f).
  Hypothesis HX : forall s, P (ATermR s).
  Hypothesis HV : forall s, P (AVar s).
  Hypothesis HH : forall s, P (AHdr s).
  Hypothesis HQ : forall s, P (AHdrQ s).
  Hypothesis HR : forall s, P (ARef s).
  Hypothesis HF : forall f args, Forall P args -> P (AFun f args).
  Hypothesis HE : forall l r, P l -> P r -> P (AEq l r).
  Fixpoint arg_ind' (a : arg) : P a :=
    match a with
    | ATermS s => HS s | ATermN n i f => HN n i f | ATermR s => HX s | AVar s => HV s | AHdr s => HH s | AHdrQ s => HQ s | ARef s => HR s
    | AFun f args => HF f args ((fix go (l : list arg) : Forall P l :=
                                   match l with [] => Forall_nil P | x :: r => Forall_cons x (arg_ind' x) (go r) end) args)
    | AEq l r => HE l r (arg_ind' l) (arg_ind' r)
    end.
End ArgInd.

Definition not_eq (a : arg) : Prop := match a with AEq _ _ => False | _ => True end.

Fixpoint wf_arg (a : arg) : Prop :=
  match a with
  | AFun _ args => (fix go (l : list arg) : Prop := match l with [] => True | x :: r => (wf_arg x) /\ go r end) args
  | AEq l r => is_left l = true /\ not_eq r /\ wf_arg l /\ wf_arg r
  | _ => True
  end.

Fixpoint wf_args (l : list arg) : Prop := match l with [] => True | a :: r => wf_arg a /\ wf_args r end.
Lemma wf_fun f args : wf_arg (AFun f args) <-> wf_args args.
Proof. cbn [wf_arg]. induction args as [|a r IH]; [reflexivity|]. cbn [wf_args]. rewrite <- IH. reflexivity. Qed.
Lemma wf_args_forall l : wf_args l <-> Forall wf_arg l.
Proof.
  induction l as [|a r IH].
  - split; intros _; [constructor|exact I].
  - cbn [wf_args]. split.
    + intros [H1 H2]. constructor; [exact H1|apply IH; exact H2].
    + intros H. inversion H; subst. split; [assumption|apply IH; assumption].
Qed.

Lemma toks_fun f args : toks_arg (AFun f args) = TName f :: TLP :: toks_args args ++ [TRP].
Proof. reflexivity. Qed.

Definition no_teq (ts : list tok) : Prop := match ts with TEq :: _ => False | _ => True end.

Lemma finish_atom f (a : arg) rest : no_teq rest ->
  match Some (a, rest) with
  | Some (a0, TEq :: r) => if is_left a0 then match parse_arg f r with Some (b, r') => Some (AEq a0 b, r') | None => None end else None
  | other => other
  end = Some (a, rest).
Proof. destruct rest as [|t r]; [reflexivity|]. destruct t; cbn; intros H; try contradiction; reflexivity. Qed.

(** the first token of an argument *)
Definition arg_start (t : tok) : Prop :=
  match t with TStr _ | TNum _ _ _ | TRegex _ | TVar _ | THdr _ | THdrQ _ | TRef _ | TName _ => True | _ => False end.
Lemma toks_arg_start : forall a, exists t r, toks_arg a = t :: r /\ arg_start t.
Proof.
  induction a using arg_ind'; try (eexists; eexists; split; [reflexivity|exact I]).
  - destruct IHa1 as (t & r & H & Hs). cbn [toks_arg]. rewrite H. eexists; eexists; split; [reflexivity|exact Hs].
Qed.

Lemma toks_args_start x l : exists t r, toks_args (x :: l) = t :: r /\ arg_start t.
Proof.
  destruct (toks_arg_start x) as (t & r & H & Hs). destruct l as [|y l']; cbn [toks_args]; rewrite H; eexists; eexists; split; try reflexivity; exact Hs.
Qed.

(** the argument list, given that each argument is read back *)
Lemma parse_args_ok fuel0 : forall (args : list arg) acc k rest, args <> [] ->
  Forall (fun x => forall rest, no_teq rest -> parse_arg fuel0 (toks_arg x ++ rest) = Some (x, rest)) args ->
  (length args <= k)%nat ->
  parse_args_with (parse_arg fuel0) k (toks_args args ++ TRP :: rest) acc = Some (acc ++ args, rest).
Proof.
  induction args as [|x l IH]; intros acc k rest Hne Hall Hk; [contradiction|].
  inversion Hall as [|x0 l0 Hx Hl]; subst.
  destruct k as [|k']; [cbn in Hk; lia|]. destruct l as [|y l'].
  - cbn [toks_args parse_args_with]. rewrite (Hx (TRP :: rest) I). reflexivity.
  - change (toks_args (x :: y :: l')) with (toks_arg x ++ TComma :: toks_args (y :: l')). rewrite <- app_assoc. cbn [app parse_args_with]. rewrite (Hx (TComma :: toks_args (y :: l') ++ TRP :: rest) I).
    rewrite (IH (acc ++ [x]) k' rest); [rewrite <- app_assoc; reflexivity|discriminate|exact Hl|cbn in Hk |- *; lia].
Qed.

Lemma toks_args_cons2 x y l : toks_args (x :: y :: l) = toks_arg x ++ TComma :: toks_args (y :: l).
Proof. reflexivity. Qed.

Lemma length_toks_args_ge : forall l x, In x l -> (length (toks_arg x) <= length (toks_args l))%nat.
Proof.
  induction l as [|y l IH]; intros x Hin; [contradiction|]. destruct l as [|z l'].
  - destruct Hin as [->|[]]. cbn. lia.
  - rewrite toks_args_cons2, app_length. cbn [length]. destruct Hin as [->|Hin]; [lia|]. specialize (IH x Hin). lia.
Qed.

Lemma length_args_le : forall l, (length l <= length (toks_args l))%nat.
Proof.
  induction l as [|y l IH]; [cbn; lia|]. destruct l as [|z l'].
  - destruct (toks_arg_start y) as (t & r & H & _). cbn [toks_args length]. rewrite H. cbn. lia.
  - rewrite toks_args_cons2, app_length. cbn [length] in *. lia.
Qed.

(** the main lemma: atoms and whole arguments *)
Lemma parse_arg_ok : forall a, wf_arg a -> forall f rest, (length (toks_arg a) <= f)%nat ->
  (not_eq a -> parse_atom (parse_arg f) f (toks_arg a ++ rest) = Some (a, rest)) /\
  (no_teq rest -> parse_arg (S f) (toks_arg a ++ rest) = Some (a, rest)).
Proof.
  induction a using arg_ind'; intros Hwf f0 rest Hf.
  1-7: match goal with |- (not_eq ?a -> _) /\ _ =>
         assert (A: parse_atom (parse_arg f0) f0 (toks_arg a ++ rest) = Some (a, rest)) by reflexivity;
         (split; [intros _; exact A|intros Hr; cbn [parse_arg]; rewrite A; apply finish_atom; exact Hr]) end.
  - (* function *)
    assert (A: parse_atom (parse_arg f0) f0 (toks_arg (AFun f args) ++ rest) = Some (AFun f args, rest)).
    { rewrite toks_fun in *. cbn [app length] in *. rewrite <- app_assoc. cbn [app].
      destruct args as [|x l]; [reflexivity|].
      destruct (toks_args_start x l) as (t & r & Ht & Hs). rewrite Ht. cbn [app].
      assert (Hp: parse_args_with (parse_arg f0) f0 (t :: r ++ TRP :: rest) [] = Some ([] ++ x :: l, rest)).
      { change (t :: r ++ TRP :: rest) with ((t :: r) ++ TRP :: rest). rewrite <- Ht.
        apply parse_args_ok; [discriminate| |].
        - apply wf_fun in Hwf. apply wf_args_forall in Hwf.
          rewrite Forall_forall in *. intros y Hy rest' Hr'.
          assert (Hly: (length (toks_arg y) <= length (toks_args (x :: l)))%nat) by (apply length_toks_args_ge; exact Hy).
          rewrite app_length in Hf. cbn [length] in Hf.
          destruct f0 as [|f1]; [lia|]. apply (H y Hy (Hwf y Hy) f1 rest'); [lia|exact Hr'].
        - pose proof (length_args_le (x :: l)). rewrite app_length in Hf. cbn [length] in Hf. lia. }
      destruct t; cbn in Hs; try contradiction; cbn [parse_atom]; rewrite Hp; reflexivity. }
    split; [intros _; exact A|intros Hr; cbn [parse_arg]; rewrite A; apply finish_atom; exact Hr].
  - (* equality as an argument *)
    destruct Hwf as (Hl & Hnr & Hw1 & Hw2). split; [intros []|]. intros Hr.
    cbn [toks_arg] in *. rewrite app_length in Hf. cbn [length] in Hf. rewrite <- app_assoc. cbn [app].
    assert (Hn1: not_eq a1) by (destruct a1; try exact I; discriminate).
    destruct (IHa1 Hw1 f0 (TEq :: toks_arg a2 ++ rest)) as [A1 _]; [lia|].
    cbn [parse_arg]. rewrite (A1 Hn1). rewrite Hl.
    destruct f0 as [|f1]; [lia|].
    destruct (IHa2 Hw2 f1 rest) as [_ A2]; [lia|]. rewrite (A2 Hr). reflexivity.
Qed.

Corollary parse_arg_roundtrip a fuel rest : wf_arg a -> (length (toks_arg a) < fuel)%nat -> no_teq rest ->
  parse_arg fuel (toks_arg a ++ rest) = Some (a, rest).
Proof.
  intros Hw Hf Hr. destruct fuel as [|f]; [lia|]. destruct (parse_arg_ok a Hw f rest) as [_ A]; [lia|]. exact (A Hr).
Qed.

(** * actions, components, the component list *)
Definition wf_action (a : action) : Prop :=
  match a with ActFun _ args => wf_args args | ActAssign _ rhs => wf_arg rhs end.
Definition wf_when (w : option action) : Prop := match w with Some a => wf_action a | None => True end.
Definition leftish (a : arg) : bool := is_left a || (match a with ARef _ => true | _ => false end).
Definition wf_comp (c : comp) : Prop :=
  match c with
  | CLeft a w => leftish a = true /\ wf_arg a /\ wf_when w
  | CEq l r w => wf_arg (AEq l r) /\ wf_when w
  | CAssign _ rhs => wf_arg rhs
  end.

(** what may follow a component: the next component, a comment or the closing bracket *)
Definition follow (ts : list tok) : Prop :=
  match ts with
  | (TRB | TComment _ | TVar _ | THdr _ | THdrQ _ | TRef _ | TName _) :: _ => True
  | _ => False
  end.
Lemma follow_no_teq ts : follow ts -> no_teq ts.
Proof. destruct ts as [|[] r]; cbn; auto. Qed.

Lemma parse_action_ok a fuel rest : wf_action a -> (length (toks_action a) < fuel)%nat -> no_teq rest ->
  parse_action fuel (toks_action a ++ rest) = Some (a, rest).
Proof.
  destruct a as [f args|v rhs]; intros Hw Hf Hr.
  - change (toks_action (ActFun f args)) with (toks_arg (AFun f args)) in *.
    assert (A := parse_arg_roundtrip (AFun f args) fuel rest (proj2 (wf_fun f args) Hw) Hf Hr).
    unfold parse_action. rewrite toks_fun in *. cbn [app] in *. rewrite A. reflexivity.
  - cbn [toks_action app length] in *. unfold parse_action.
    rewrite (parse_arg_roundtrip rhs fuel rest Hw); [reflexivity|lia|exact Hr].
Qed.

Lemma parse_when_ok w fuel rest : wf_when w -> (length (toks_when w) < fuel)%nat -> follow rest ->
  parse_when fuel (toks_when w ++ rest) = Some (w, rest).
Proof.
  destruct w as [a|]; intros Hw Hf Hr.
  - cbn [toks_when app length] in *. unfold parse_when. rewrite (parse_action_ok a fuel rest Hw); [reflexivity|lia|apply follow_no_teq; exact Hr].
  - cbn [toks_when app]. destruct rest as [|[] r]; cbn in Hr; try contradiction; reflexivity.
Qed.

Lemma when_no_teq w rest : follow rest -> no_teq (toks_when w ++ rest).
Proof. destruct w; [exact (fun _ => I)|apply follow_no_teq]. Qed.

Definition comp_start (t : tok) : Prop := match t with TVar _ | THdr _ | THdrQ _ | TRef _ | TName _ => True | _ => False end.

Lemma parse_comp_ok c fuel rest : wf_comp c -> (length (toks_comp c) < fuel)%nat -> follow rest ->
  parse_comp fuel (toks_comp c ++ rest) = Some (c, rest).
Proof.
  destruct c as [a w|l r w|v rhs]; intros Hw Hf Hr.
  - destruct Hw as (Hl & Hwa & Hww). cbn [toks_comp] in *. rewrite app_length in Hf. rewrite <- app_assoc.
    assert (A := parse_arg_roundtrip a fuel (toks_when w ++ rest) Hwa ltac:(lia) (when_no_teq w rest Hr)).
    assert (W := parse_when_ok w fuel rest Hww ltac:(lia) Hr).
    destruct a as [s|n i fp|s|s|s|s|s|f args|l r]; try discriminate Hl.
    + (* a variable: the token after it is not an assignment *)
      cbn [toks_arg app] in *. unfold parse_comp.
      destruct w as [act|].
      * cbn [toks_when app] in *. rewrite A. cbn [leftish is_left orb]. rewrite W. reflexivity.
      * cbn [toks_when app] in *. destruct rest as [|[] r]; cbn in Hr; try contradiction; rewrite A; cbn [is_left orb]; rewrite W; reflexivity.
    + cbn [toks_arg app] in *. unfold parse_comp. rewrite A. cbn [is_left orb]. rewrite W. reflexivity.
    + cbn [toks_arg app] in *. unfold parse_comp. rewrite A. cbn [is_left orb]. rewrite W. reflexivity.
    + cbn [toks_arg app] in *. unfold parse_comp. rewrite A. cbn [is_left orb]. rewrite W. reflexivity.
    + rewrite toks_fun in *. cbn [app] in *. unfold parse_comp. rewrite A. cbn [is_left orb]. rewrite W. reflexivity.
  - destruct Hw as (Hwa & Hww).
    assert (Hceq: toks_comp (CEq l r w) = toks_arg (AEq l r) ++ toks_when w) by (cbn [toks_comp toks_arg]; rewrite <- app_assoc; reflexivity).
    rewrite Hceq in *. rewrite app_length in Hf. rewrite <- app_assoc.
    assert (A := parse_arg_roundtrip (AEq l r) fuel (toks_when w ++ rest) Hwa ltac:(lia) (when_no_teq w rest Hr)).
    assert (W := parse_when_ok w fuel rest Hww ltac:(lia) Hr).
    destruct Hwa as (Hl & _).
    destruct (toks_arg_start l) as (t & tl & Ht & _).
    assert (Hna: forall v r0, toks_arg (AEq l r) ++ toks_when w ++ rest <> TVar v :: TAssign :: r0).
    { intros v r0 H. cbn [toks_arg] in H. destruct l as [s|n i fp|s|s|s|s|s|f args|l1 l2]; try discriminate Hl; cbn in H; discriminate H. }
    unfold parse_comp.
    destruct (toks_arg (AEq l r) ++ toks_when w ++ rest) as [|t0 [|t1 r1]] eqn:E.
    + rewrite A. rewrite W. reflexivity.
    + destruct t0; rewrite A; rewrite W; reflexivity.
    + destruct t0; try (rewrite A; rewrite W; reflexivity).
      destruct t1; try (rewrite A; rewrite W; reflexivity). exfalso. exact (Hna _ _ eq_refl).
  - cbn [toks_comp app length] in *. unfold parse_comp.
    rewrite (parse_arg_roundtrip rhs fuel rest Hw); [reflexivity|lia|apply follow_no_teq; exact Hr].
Qed.

Lemma toks_comp_start c : wf_comp c -> exists t r, toks_comp c = t :: r /\ comp_start t.
Proof.
  destruct c as [a w|l r w|v rhs]; intros Hw.
  - destruct Hw as (Hl & _). destruct a; try discriminate Hl; cbn [toks_comp toks_arg app]; try rewrite toks_fun; cbn [app]; eexists; eexists; (split; [reflexivity|exact I]).
  - destruct Hw as ((Hl & _) & _). destruct l; try discriminate Hl; cbn [toks_comp toks_arg app]; try rewrite toks_fun; cbn [app]; eexists; eexists; (split; [reflexivity|exact I]).
  - eexists; eexists; (split; [reflexivity|exact I]).
Qed.

(** the component list with comments woven in *)
Inductive item := IC (c : comp) | ICm (s : ustring).
Definition toks_item (i : item) : list tok := match i with IC c => toks_comp c | ICm s => [TComment s] end.
Definition toks_items (l : list item) : list tok := flat_map toks_item l.
Fixpoint comps_of (l : list item) : list comp := match l with [] => [] | IC c :: r => c :: comps_of r | ICm _ :: r => comps_of r end.
Definition wf_item (i : item) : Prop := match i with IC c => wf_comp c | ICm _ => True end.

Lemma items_follow l : Forall wf_item l -> follow (toks_items l ++ [TRB]).
Proof.
  destruct l as [|[c|s] r]; intros H; [exact I| |exact I].
  inversion H; subst. destruct (toks_comp_start c) as (t & tl & Ht & Hs); [assumption|].
  unfold toks_items. cbn [flat_map toks_item]. rewrite Ht. cbn [app]. destruct t; cbn in Hs; try contradiction; exact I.
Qed.

Lemma parse_comps_ok : forall l fuel, Forall wf_item l -> (length (toks_items l) + 1 < fuel)%nat ->
  parse_comps fuel (toks_items l ++ [TRB]) = Some (comps_of l).
Proof.
  induction l as [|i l IH]; intros fuel Hw Hf.
  - destruct fuel; [lia|reflexivity].
  - inversion Hw as [|i0 l0 Hi Hl]; subst. destruct fuel as [|f]; [lia|].
    unfold toks_items in *. cbn [flat_map] in *. rewrite app_length in Hf. rewrite <- app_assoc.
    destruct i as [c|s].
    + cbn [toks_item comps_of] in *.
      destruct (toks_comp_start c Hi) as (t & tl & Ht & Hs).
      assert (P := parse_comp_ok c (S f) (flat_map toks_item l ++ [TRB]) Hi ltac:(lia) (items_follow l Hl)).
      assert (Hlen: (1 <= length (toks_comp c))%nat) by (rewrite Ht; cbn; lia).
      assert (R := IH f Hl ltac:(lia)).
      rewrite Ht in P |- *. cbn [app] in *.
      destruct t; cbn in Hs; try contradiction; cbn [parse_comps]; rewrite P; rewrite R; reflexivity.
    + cbn [toks_item comps_of app length] in *. cbn [parse_comps]. apply IH; [exact Hl|lia].
Qed.

Theorem parse_match_ok l : Forall wf_item l -> parse_match (TLB :: toks_items l ++ [TRB]) = Some (comps_of l).
Proof.
  intros H. unfold parse_match. apply parse_comps_ok; [exact H|]. cbn [length]. rewrite app_length. cbn. lia.
Qed.

(** without comments the tokens are those of the component list *)
Lemma toks_items_plain cs : toks_items (map IC cs) = flat_map toks_comp cs /\ comps_of (map IC cs) = cs.
Proof. induction cs as [|c r [IH1 IH2]]; [split; reflexivity|]. split; cbn; [unfold toks_items in IH1; rewrite IH1|rewrite IH2]; reflexivity. Qed.
