(** CORE: the line's answer is the AND/OR of the components' votes evaluated left to right; the
    operators mean what the documentation says; counters. *)
From Coq Require Import ZArith List Bool Lia.
From V Require Import Csv.CsvModel Data.DataModel Scan.ScanModel Run.RunLoop Run.RunFacts Match.Adjudicate Match.AdjProofs Match.Core.
Import ListNotations.
Open Scope Z_scope.

Section CoreProofs.
  Variable q : quirks.
  Variable blanks : list bool.
  Variable AND : bool.

  Notation ev := (fun l (c : comp) (s : cst) => eval q blanks AND c s l).

  Lemma do_action_keeps s l a : stopped mx (do_action q blanks AND s l a) = stopped mx s /\ match_count mx (do_action q blanks AND s l a) = match_count mx s
    /\ scan_count mx (do_action q blanks AND s l a) = scan_count mx s /\ adv mx (do_action q blanks AND s l a) = adv mx s /\ pln mx (do_action q blanks AND s l a) = pln mx s.
  Proof. destruct a as [? ?|? ?|? ?|? ?|? ?|? ?|g]; cbn; try (destruct (rev _)); cbn; auto. destruct g; cbn; try (destruct (dget _ _ _) as [[]|]); try (destruct (is_blank_text _)); try (destruct (none_like _)); try (destruct (Assign.do_assignment _ _ _ _) as [[[|] ?]|]); cbn; auto. Qed.

  Lemma eval_keeps c s l : stopped mx (fst (eval q blanks AND c s l)) = stopped mx s /\ match_count mx (fst (eval q blanks AND c s l)) = match_count mx s
    /\ scan_count mx (fst (eval q blanks AND c s l)) = scan_count mx s /\ adv mx (fst (eval q blanks AND c s l)) = adv mx s /\ pln mx (fst (eval q blanks AND c s l)) = pln mx s.
  Proof.
    destruct c as [b|a|b a|g|na0 i0 k0 r0]; cbn; auto using do_action_keeps.
    - destruct (beval q blanks s l b); cbn; auto using do_action_keeps.
    - apply (do_action_keeps s l (Agg g)).
  Qed.

  (** no CORE component stops or skips: every line is "calm" *)
  Lemma core_calm l : forall cs s, stopped mx s = false -> calm cst comp (stopped mx) (fun _ => false) (ev l) cs s.
  Proof.
    induction cs as [|c cs IH]; intros s H; cbn; [exact I|].
    destruct (eval_keeps c s l) as (H1 & _). split; [rewrite H1; exact H|]. split; [reflexivity|]. apply IH. rewrite H1. exact H.
  Qed.

  (** C01, semantic half: on a line offered to the match part, the answer is the conjunction
      (disjunction in OR mode) of the components' votes, each component evaluated once, left to
      right, on the state its predecessors left *)
  Theorem core_line_vote cs e s l : stopped mx s = false -> (oeqb e (pln mx s) && is_nil l) = false ->
    core_m q blanks AND cs e s l =
      (fst (seq_eval cst comp (ev l) AND cs (ensure cs s) (negb AND)), negb (snd (seq_eval cst comp (ev l) AND cs (ensure cs s) (negb AND)))).
  Proof.
    intros Hs Hb. unfold core_m. cbv zeta.
    assert (Hp: pln mx (ensure cs s) = pln mx s) by (unfold ensure; destruct (frozen mx s); reflexivity).
    assert (Hs': stopped mx (ensure cs s) = false) by (unfold ensure; destruct (frozen mx s); exact Hs).
    rewrite Hp, Hb. unfold matches.
    rewrite (adj_all_calm cst comp (stopped mx) (fun _ => false) (fun s0 => s0) (ev l) (fun s0 => s0) false AND cs (ensure cs s) (negb AND) Hs' eq_refl (core_calm l cs (ensure cs s) Hs')).
    reflexivity.
  Qed.

  (** AND mode: all votes; OR mode: some vote *)
  Lemma seq_eval_and : forall cs s f l, snd (seq_eval cst comp (fun c0 s0 => eval q blanks true c0 s0 l) true cs s f) = true <->
    f = true \/ exists pre c post, cs = pre ++ c :: post /\
      snd (eval q blanks true c (fst (seq_eval cst comp (fun c0 s0 => eval q blanks true c0 s0 l) true pre s f)) l) = false.
  Proof.
    induction cs as [|c cs IH]; intros s f l; cbn.
    - split; [intros ->; left; reflexivity|intros [H|(pre & c & post & H & _)]; [exact H|destruct pre; discriminate]].
    - destruct (eval q blanks true c s l) as [s1 v] eqn:E. rewrite IH. unfold upd. split.
      + intros [H|(pre & c' & post & Hc & Hv)].
        * destruct v; [left; exact H|]. destruct f; [left; reflexivity|]. right. exists [], c, cs. cbn. rewrite E. auto.
        * right. exists (c :: pre), c', post. cbn. rewrite E. split; [rewrite Hc; reflexivity|]. exact Hv.
      + intros [->|(pre & c' & post & Hc & Hv)]; [left; destruct v; reflexivity|].
        destruct pre as [|p pre]; cbn in Hc; inversion Hc; subst.
        * cbn in Hv. rewrite E in Hv. cbn in Hv. subst v. left. reflexivity.
        * cbn in Hv. rewrite E in Hv. right. exists pre, c', post. auto.
  Qed.
End CoreProofs.

(** the documented meaning of the comparison operators (clean model): strict and non-strict, on numbers *)
Theorem cmp_meaning a b :
  cmp_num clean Gt a b = (b <? a) /\ cmp_num clean Gte a b = (b <=? a) /\ cmp_num clean Lt a b = (a <? b) /\ cmp_num clean Lte a b = (a <=? b).
Proof. repeat split. Qed.

Theorem between_meaning bl s l x a b : floatable (nvalue bl s l x) = true -> floatable (nvalue bl s l a) = true -> floatable (nvalue bl s l b) = true ->
  (beval clean bl s l (BBetween x a b) = true <->
  Z.min (fst (neval bl s l a)) (fst (neval bl s l b)) < fst (neval bl s l x) < Z.max (fst (neval bl s l a)) (fst (neval bl s l b))).
Proof.
  intros Hx Ha Hb. cbn [beval]. cbv zeta.
  assert (N: forall v, floatable v = true -> is_vnone v = false) by (intros [] H; cbn in *; congruence).
  rewrite (N _ Hx), (N _ Ha), (N _ Hb), Hx, Ha, Hb. cbn [orb andb]. rewrite andb_true_iff, !Z.ltb_lt. tauto.
Qed.

(** a side that is None: not between; a side that is not a number: strictly between as trimmed text *)
Theorem between_none bl s l x a b : is_vnone (nvalue bl s l x) || is_vnone (nvalue bl s l a) || is_vnone (nvalue bl s l b) = true ->
  beval clean bl s l (BBetween x a b) = false.
Proof. intros H. cbn [beval]. cbv zeta. rewrite H. reflexivity. Qed.

(** all(): every header has a value on this line — the line has exactly as many cells as there are headers and no cell is blank *)
Theorem all_cells_meaning q bl s l nh : beval q bl s l (BAllCells nh) = true <->
  length l = nh /\ Forall (fun t => strip t <> []) l.
Proof.
  cbn [beval]. rewrite andb_true_iff, Nat.eqb_eq, forallb_forall, Forall_forall. split; intros [H1 H2]; (split; [exact H1|]).
  - intros t Ht. specialize (H2 t Ht). unfold is_blank_text in H2. destruct (strip t); [discriminate|discriminate].
  - intros t Ht. specialize (H2 t Ht). unfold is_blank_text. destruct (strip t); [contradiction|reflexivity].
Qed.

(** mod(#h, k) == r as a component: it holds on a line exactly when the cell is there, is a number z, and z mod k = r — a blank, missing
    or non-numeric cell never satisfies it (mod() raises, the component declines), not even under not() *)
Theorem mod_component_meaning q bl AND s l na i k r :
  eval q bl AND (CMod na i k r) s l = (s, true) <->
  exists t z, cell l i = Some t /\ parse_int t = Some z /\ (if na then ~ (r < z mod k) else z mod k = r).
Proof.
  cbn [eval]. split.
  - intros H. destruct (cell l i) as [t|] eqn:Ec; [|inversion H]. destruct (parse_int t) as [z|] eqn:Ep; [|inversion H].
    exists t, z. split; [reflexivity|split; [exact Ep|]]. destruct na.
    + injection H as H. apply negb_true_iff in H. apply Z.ltb_ge in H. lia.
    + injection H as H. apply Z.eqb_eq in H. exact H.
  - intros (t & z & Hc & Hp & Hz). rewrite Hc, Hp. destruct na.
    + f_equal. apply negb_true_iff. apply Z.ltb_ge. lia.
    + f_equal. apply Z.eqb_eq. exact Hz.
Qed.
Theorem mod_component_blank q bl AND s l na i k r : (forall t, cell l i = Some t -> is_blank_text t = true) ->
  snd (eval q bl AND (CMod na i k r) s l) = false.
Proof.
  intros H. cbn [eval snd]. destruct (cell l i) as [t|] eqn:E; [|reflexivity].
  specialize (H t eq_refl). unfold is_blank_text in H. unfold parse_int. destruct (strip t); [reflexivity|discriminate].
Qed.

Theorem numeric_cells_compare_as_numbers bl s l o i j :
  floatable (nvalue bl s l (NHdr i)) = true -> floatable (nvalue bl s l (NHdr j)) = true ->
  beval clean bl s l (BCmp o (NHdr i) (NHdr j)) = cmp_num clean o (fst (neval bl s l (NHdr i))) (fst (neval bl s l (NHdr j))).
Proof.
  intros Hi Hj. cbn [beval q_strcmp clean andb]. rewrite Hi, Hj. cbn [andb].
  destruct (nvalue bl s l (NHdr i)); destruct (nvalue bl s l (NHdr j)); cbn in *; try discriminate; reflexivity.
Qed.

(** a cell that is not a number (empty, text) is compared as text *)
Theorem nonnumeric_cells_compare_as_text bl s l o a c :
  is_vnone (nvalue bl s l a) = false -> is_vnone (nvalue bl s l c) = false ->
  floatable (nvalue bl s l a) && floatable (nvalue bl s l c) = false ->
  beval clean bl s l (BCmp o a c) = cmp_str clean o (text_of bl s l a) (text_of bl s l c).
Proof. intros Ha Hc Hf. cbn [beval q_strcmp clean andb]. rewrite Ha, Hc, Hf. reflexivity. Qed.

(** == : equal as trimmed text, or equal as Python values; equals(): the function form (None only equals None, numbers as numbers, otherwise text) *)
Theorem eqeq_meaning q bl s l a c :
  beval q bl s l (BEqEq a c) = ustr_eqb (strip (str_val (nvalue bl s l a))) (strip (str_val (nvalue bl s l c))) || val_eqb (nvalue bl s l a) (nvalue bl s l c).
Proof. reflexivity. Qed.
Theorem equals_numbers q bl s l a c : floatable (nvalue bl s l a) = true -> floatable (nvalue bl s l c) = true ->
  beval q bl s l (BEq a c) = (fst (neval bl s l a) =? fst (neval bl s l c)).
Proof.
  intros Ha Hc. cbn [beval]. destruct (nvalue bl s l a) eqn:Ea; destruct (nvalue bl s l c) eqn:Ec; cbn in *; try discriminate; rewrite ?Ha, ?Hc; reflexivity.
Qed.

(** a cell the record does not have is neither above nor below a value *)
Theorem missing_cell_compares_false bl s l o i e : cell l i = None -> is_vnone (nvalue bl s l e) = false ->
  beval clean bl s l (BCmp o (NHdr i) e) = false /\ beval clean bl s l (BCmp o e (NHdr i)) = false.
Proof. intros Hi He. cbn [beval q_strcmp clean andb nvalue]. rewrite Hi. cbn [is_vnone xorb]. rewrite He. split; reflexivity. Qed.

(** D1, D2, D4 witnesses *)
Theorem lt_is_le_refuted : cmp_num (mkQ true false false) Lt 10 10 = true /\ cmp_num clean Lt 10 10 = false.
Proof. split; reflexivity. Qed.

Theorem string_compare_refuted :
  let s := rs0 mx (mkMx [] [] []) in
  beval (mkQ false true false) [] s [[57]; [49; 48]] (BCmp Gt (NHdr 0) (NHdr 1)) = true /\     (* "9" above "10" *)
  beval clean [] s [[57]; [49; 48]] (BCmp Gt (NHdr 0) (NHdr 1)) = false.
Proof. split; reflexivity. Qed.

Theorem pop_drops_two_refuted :
  let s := with_mx (rs0 mx (mkMx [] [] [])) (mkMx [] [(1, [VI 1; VI 2; VI 3])] []) in
  lookup 1 (stacks (x mx (do_action (mkQ false false true) [] true s [] (Pop 9 1)))) = Some [VI 1] /\
  lookup 1 (stacks (x mx (do_action clean [] true s [] (Pop 9 1)))) = Some [VI 1; VI 2].
Proof. split; reflexivity. Qed.
