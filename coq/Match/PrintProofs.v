(** print(): every character of the template that is not part of a reference comes out unchanged, in
    place, and each reference is replaced by its value — for templates of any length. *)
From Coq Require Import ZArith List Bool Lia.
From V Require Import Csv.CsvModel Data.DataModel Match.Print.
Import ListNotations.
Open Scope Z_scope.

Inductive chunk := CText (s : ustring) | CRef (r : ref).

Definition type_word (t : rtype) : ustring :=
  match t with TVariables => w_variables | THeaders => w_headers | TMetadata => w_metadata | TCsvpath => w_csvpath end.

Definition render_ref (r : ref) : ustring :=
  DOLLAR :: r_root r ++ DOT :: type_word (r_type r) ++ DOT :: r_name r
  ++ match r_track r with Some k => DOT :: k | None => [] end.

Definition render_chunk (c : chunk) : ustring := match c with CText s => s | CRef r => render_ref r end.
Definition render (cs : list chunk) : ustring := flat_map render_chunk cs.

(** a character that ends a name: not a name character, not a dot, not a dollar *)
Definition terminator (c : Z) : bool := negb (name_char c) && negb (c =? DOT) && negb (c =? DOLLAR).

Definition wf_name (n : ustring) : Prop := n <> [] /\ forallb name_char n = true.
Definition wf_ref (r : ref) : Prop :=
  forallb (fun c => negb ((c =? DOT) || (c =? DOLLAR))) (r_root r) = true /\ wf_name (r_name r) /\
  match r_track r with Some k => wf_name k | None => True end.

(** text has no dollar; a reference is followed by the end of the string or by text that begins with a terminator *)
Fixpoint wf_template (cs : list chunk) : Prop :=
  match cs with
  | [] => True
  | CText s :: r => forallb (fun c => negb (c =? DOLLAR)) s = true /\ wf_template r
  | CRef rf :: r => wf_ref rf /\ wf_template r /\
      match r with
      | [] => True
      | CText (t :: _) :: _ => terminator t = true
      | _ => False
      end
  end.

Fixpoint subst (e : env) (cs : list chunk) : option ustring :=
  match cs with
  | [] => Some []
  | CText s :: r => option_map (app s) (subst e r)
  | CRef rf :: r => match ref_value e rf, subst e r with Some v, Some t => Some (v ++ t) | _, _ => None end
  end.

(** * scanning lemmas *)
Lemma span_stop p : forall (a : ustring) c rest, forallb p a = true -> p c = false -> span p (a ++ c :: rest) = (a, c :: rest).
Proof.
  induction a as [|x a IH]; intros c rest Ha Hc; cbn.
  - rewrite Hc. reflexivity.
  - cbn in Ha. apply andb_prop in Ha. destruct Ha as [Hx Ha]. rewrite Hx, (IH c rest Ha Hc). reflexivity.
Qed.

Lemma parse_type_word t rest : parse_type (type_word t ++ rest) = Some (t, rest).
Proof. destruct t; reflexivity. Qed.

Lemma name_char_not_quote c : name_char c = true -> (c =? 39) = false.
Proof.
  unfold name_char. intros H. destruct (c =? 39) eqn:E; [|reflexivity]. apply Z.eqb_eq in E. subst c. cbn in H. discriminate.
Qed.

Lemma parse_name_ok n c rest : wf_name n -> name_char c = false -> parse_name (n ++ c :: rest) = Some (n, c :: rest).
Proof.
  intros [Hne Hn] Hc. destruct n as [|x n]; [contradiction|].
  assert (Hx: name_char x = true) by (cbn in Hn; apply andb_prop in Hn; tauto).
  unfold parse_name. cbn [app]. rewrite (name_char_not_quote x Hx).
  change (x :: n ++ c :: rest) with ((x :: n) ++ c :: rest). rewrite (span_stop name_char (x :: n) c rest Hn Hc). reflexivity.
Qed.

Lemma terminator_facts t : terminator t = true -> name_char t = false /\ (t =? DOT) = false /\ (t =? DOLLAR) = false.
Proof.
  unfold terminator. intros H. apply andb_prop in H. destruct H as [H H3]. apply andb_prop in H. destruct H as [H1 H2].
  apply negb_true_iff in H1, H2, H3. auto.
Qed.

Lemma dot_not_name : name_char DOT = false.
Proof. reflexivity. Qed.

(** a rendered reference followed by a terminator character is read back as that reference; the
    terminator is the sentinel *)
Lemma parse_ref_ok r t rest : wf_ref r -> terminator t = true ->
  parse_ref (tl (render_ref r) ++ t :: rest) = Some (r, [t], rest).
Proof.
  intros (Hroot & Hn & Hk) Ht. destruct (terminator_facts t Ht) as (T1 & T2 & T3).
  destruct r as [root ty name track]. cbn [r_root r_type r_name r_track] in *.
  unfold render_ref. cbn [tl r_root r_type r_name r_track]. unfold parse_ref.
  rewrite <- !app_assoc. cbn [app].
  rewrite (span_stop _ root DOT _ Hroot) by reflexivity.
  cbn [is_dot]. rewrite Z.eqb_refl. rewrite <- app_assoc. rewrite parse_type_word. cbn [app is_dot]. rewrite Z.eqb_refl.
  destruct track as [k|].
  - rewrite <- app_assoc. cbn [app]. rewrite (parse_name_ok name DOT _ Hn dot_not_name).
    cbn [is_dot]. rewrite Z.eqb_refl.
    destruct Hk as [Hkne Hkn]. destruct k as [|k0 k]; [contradiction|].
    assert (Hk0: name_char k0 = true) by (cbn in Hkn; apply andb_prop in Hkn; tauto).
    assert (Hk0d: (k0 =? DOT) = false). { destruct (k0 =? DOT) eqn:E; [|reflexivity]. apply Z.eqb_eq in E. subst. discriminate. }
    cbn [app is_dot]. rewrite Hk0d.
    change (k0 :: k ++ t :: rest) with ((k0 :: k) ++ t :: rest).
    rewrite (parse_name_ok (k0 :: k) t rest (conj Hkne Hkn) T1).
    unfold is_dot. rewrite T2. reflexivity.
  - rewrite app_nil_r. rewrite (parse_name_ok name t rest Hn T1). unfold is_dot. rewrite T2. cbv beta iota zeta. rewrite T2. reflexivity.
Qed.

Lemma render_items_app e : forall a b, render_items e (a ++ b) =
  match render_items e a, render_items e b with Some x, Some y => Some (x ++ y) | _, _ => None end.
Proof.
  induction a as [|i a IH]; intros b; cbn.
  - destruct (render_items e b); reflexivity.
  - destruct i as [t|rf]; cbn; rewrite IH.
    + destruct (render_items e a), (render_items e b); cbn; rewrite ?app_assoc; reflexivity.
    + destruct (ref_value e rf), (render_items e a), (render_items e b); cbn; rewrite ?app_assoc; reflexivity.
Qed.

(** text without a dollar comes out as it is *)
Lemma scan_text e : forall (s : ustring) rest fuel, forallb (fun c => negb (c =? DOLLAR)) s = true -> (length (s ++ rest) < fuel)%nat ->
  option_map (render_items e) (scan false fuel (s ++ rest) []) =
  option_map (fun its => option_map (app s) (render_items e its)) (scan false (fuel - length s) rest []).
Proof.
  induction s as [|c s IH]; intros rest fuel Hs Hf.
  - cbn [app length]. rewrite Nat.sub_0_r. destruct (scan false fuel rest []) as [its|]; cbn; [destruct (render_items e its); reflexivity|reflexivity].
  - cbn [forallb] in Hs. apply andb_prop in Hs. destruct Hs as [Hc Hs]. apply negb_true_iff in Hc.
    destruct fuel as [|f]; [cbn in Hf; lia|]. cbn [app scan]. rewrite Hc. cbn [app length Nat.sub].
    specialize (IH rest f Hs). cbn [app length] in Hf. assert (Hf': (length (s ++ rest) < f)%nat) by lia. specialize (IH Hf').
    destruct (scan false f (s ++ rest) []) as [its|]; destruct (scan false (f - length s) rest []) as [its2|]; cbn in *; try discriminate; try reflexivity.
    + inversion IH as [H]. rewrite H. destruct (render_items e its2); reflexivity.
Qed.

Lemma terminator_sp : terminator SP = true.
Proof. reflexivity. Qed.

Lemma scan_one fuel t rest : (t =? DOLLAR) = false -> scan false (S fuel) (t :: rest) [] = option_map (cons (IText [t])) (scan false fuel rest []).
Proof. intros H. cbn [scan]. rewrite H. reflexivity. Qed.

(** the main theorem, with the blank that LarkPrintParser.parse appends made explicit *)
Theorem scan_verbatim e : forall cs fuel, wf_template cs -> (length (render cs ++ [SP]) < fuel)%nat ->
  option_map (render_items e) (scan false fuel (render cs ++ [SP]) []) = Some (option_map (fun v => v ++ [SP]) (subst e cs)).
Proof.
  induction cs as [|c cs IH]; intros fuel Hwf Hf.
  - cbn in Hf |- *. destruct fuel as [|[|f]]; try lia. cbn. reflexivity.
  - destruct c as [s|rf].
    + destruct Hwf as [Hs Hwf]. cbn [render flat_map render_chunk] in *. fold (render cs) in *. rewrite <- app_assoc in *.
      rewrite (scan_text e s (render cs ++ [SP]) fuel Hs Hf).
      assert (Hf': (length (render cs ++ [SP]) < fuel - length s)%nat) by (rewrite app_length in Hf; lia).
      specialize (IH (fuel - length s)%nat Hwf Hf').
      destruct (scan false (fuel - length s) (render cs ++ [SP]) []) as [its|]; cbn in IH |- *; [|discriminate].
      inversion IH as [H]. rewrite H. cbn [subst]. destruct (subst e cs); cbn; [rewrite <- app_assoc|]; reflexivity.
    + destruct Hwf as (Hr & Hwf & Hnext). cbn [render flat_map render_chunk] in *. fold (render cs) in *. rewrite <- app_assoc in *.
      assert (Hsplit: exists t rest, render cs ++ [SP] = t :: rest /\ terminator t = true).
      { destruct cs as [|[[|t s']|rf'] cs']; try contradiction.
        - exists SP, []. split; [reflexivity|apply terminator_sp].
        - exists t, (s' ++ render cs' ++ [SP]). split; [cbn; rewrite <- app_assoc; reflexivity|exact Hnext]. }
      destruct Hsplit as (t & rest & Hsp & Ht). destruct (terminator_facts t Ht) as (_ & _ & T3).
      destruct fuel as [|f]; [lia|].
      assert (Hrr: render_ref rf = DOLLAR :: tl (render_ref rf)) by reflexivity.
      rewrite Hrr in *. cbn [app scan]. rewrite Z.eqb_refl. rewrite Hsp. rewrite (parse_ref_ok rf t rest Hr Ht). cbn [option_map].
      assert (Hlen: (length (render cs ++ [SP]) < S f)%nat).
      { cbn [app length] in Hf. rewrite app_length in Hf. lia. }
      specialize (IH (S f) Hwf Hlen). rewrite Hsp in IH. rewrite (scan_one f t rest T3) in IH.
      destruct (scan false f rest []) as [its|]; cbn in IH |- *; [|discriminate].
      inversion IH as [H]. clear IH. cbn [subst].
      destruct (ref_value e rf) as [v|]; destruct (render_items e its) as [x|]; destruct (subst e cs) as [y|]; cbn in H |- *; try discriminate; try reflexivity.
      inversion H as [H']. rewrite H'. rewrite <- app_assoc. reflexivity.
Qed.

(** C16: print sends exactly the template with every reference replaced by its current value *)
Theorem print_verbatim e cs v : wf_template cs -> subst e cs = Some v -> print_model false e (render cs) = Some v.
Proof.
  intros Hwf Hs. unfold print_model.
  assert (Hf: (length (render cs ++ [SP]) < S (length (render cs) + 1))%nat) by (rewrite app_length; cbn; lia).
  pose proof (scan_verbatim e cs _ Hwf Hf) as H. rewrite Hs in H.
  destruct (scan false (S (length (render cs) + 1)) (render cs ++ [SP]) []) as [its|]; [|cbn in H; discriminate].
  cbn [option_map] in H. inversion H as [H']. rewrite H'. rewrite rev_app_distr. cbn [rev app]. rewrite rev_involutive. reflexivity.
Qed.

(** D9: with the switch on, the separator between two adjacent references is lost *)
Theorem adjacent_refuted :
  let e := mkEnv [] [[97]; [98]] [[49]; [50]] [] [] in
  (* "$.headers.a,$.headers.b" *)
  let t := [36;46;104;101;97;100;101;114;115;46;97;44;36;46;104;101;97;100;101;114;115;46;98] in
  print_model true e t = Some [49; 50] /\ print_model false e t = Some [49; 44; 50].
Proof. vm_compute. split; reflexivity. Qed.

(** D9b (open finding): a reference immediately followed by '$' swallows it as its sentinel; the second
    reference is then plain text with a stray dollar re-attached — in the implementation and in the model alike *)
Theorem touching_refuted :
  let e := mkEnv [([120], VScalar [49])] [[98]] [[50]] [] [] in
  (* "$.variables.x$.headers.b" *)
  let t := [36;46;118;97;114;105;97;98;108;101;115;46;120;36;46;104;101;97;100;101;114;115;46;98] in
  print_model false e t = Some [49; 36; 46; 104; 101; 97; 100; 101; 114; 115; 46; 98].
Proof. vm_compute. reflexivity. Qed.

(** print.once prints at most once per run; print.onmatch only on matching lines; a plain print once per executed line *)
Theorem once_at_most_once q ls : p_once q = true -> forall h, (length (filter (fun b => b) (print_run q h ls)) <= (if h then 0 else 1))%nat.
Proof.
  intros Ho. induction ls as [|m ls IH]; intros h; cbn; [destruct h; lia|].
  unfold print_step. rewrite Ho. destruct (p_onmatch q && negb m); cbn; [apply IH|].
  destruct h; cbn; [apply IH|]. specialize (IH true). cbn in IH. lia.
Qed.

Theorem onmatch_only_matching q ls : p_onmatch q = true -> forall h,
  Forall (fun mp : bool * bool => snd mp = true -> fst mp = true) (combine ls (print_run q h ls)).
Proof.
  intros Ho. induction ls as [|m ls IH]; intros h; cbn; [constructor|].
  unfold print_step. rewrite Ho. destruct m; cbn.
  - destruct (p_once q && h); constructor; auto.
  - constructor; [intros H; discriminate|apply IH].
Qed.

Theorem plain_every_line ls h : print_run (mkPq false false) h ls = map (fun _ => true) ls.
Proof. revert h. induction ls as [|m ls IH]; intros h; cbn; [reflexivity|]. rewrite IH. reflexivity. Qed.
