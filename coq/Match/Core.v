(** CORE: a typed fragment of the match language with its documented meaning, as an executable
    matcher for the run loop.  Numeric expressions range over integers (header cells holding
    integer text, int(), add/subtract/multiply — which produce floats with integral value —,
    length, the counters), string expressions over text (header cells, literals, lower, upper,
    concat), boolean components over the comparison / boolean / string tests; assignments, push,
    pop and when/do write variables.  AND or OR logic mode.
    Sources transcribed: productions/header.py, term.py, variable.py, equality.py (_do_equality,
    _do_when, plain assignment), functions/boolean/*, math/above.py equals.py add.py subtract.py
    multiply.py intf.py, boolean/between.py, strings/*, counting/count_lines.py count_scans.py,
    lines/line_number? (line_number), variables/pushpop.py.
    Deviation switches: [q_lt] D1 (lt/below/before answer <=), [q_strcmp] D2 (above/below compare as strings
    unless both operands are Python numbers of the same type: CSV cells, int vs float), [q_pop] D4 (pop drops two).
    Bookkeeping functions (counting/tally.py, counting/every.py, counting/counter.py, counting/count.py (bare count()),
    lines/first.py, math/sum.py, math/subtotal.py) and tracking-keyed assignment "@name.key = e" / read "@name.key"
    (productions/equality.py, variable.py, CsvPath.get_variable/set_variable with a tracking value) write named
    variables: plain ones ([vars]) or dictionaries keyed by a tracking value ([dicts], in insertion order).  No proofs here. *)
From Coq Require Import ZArith List Bool.
From V Require Import Csv.CsvModel Data.DataModel Scan.ScanModel Run.RunLoop Match.Adjudicate.
From V Require Match.Assign.      (* the assignment decision of C14: qualified names only (its mkQ is another record's constructor) *)
Import ListNotations.
Open Scope Z_scope.

Inductive value := VI (z : Z) | VF (z : Z) | VS (s : ustring) | VNone.

Record quirks := mkQ { q_lt : bool; q_strcmp : bool; q_pop : bool }.
Definition clean : quirks := mkQ false false false.

Inductive cmpop := Gt | Gte | Lt | Lte.

(** numeric expressions: [raw] remembers whether the value is still the header's text (matters only
    for the D2 switch and for what an assignment stores) *)
Inductive sexp :=
  | SLit (s : ustring) | SHdr (i : nat) | SLower (s : sexp) | SUpper (s : sexp) | SConcat (a b : sexp) | SVar (x : Z).
Inductive nexp :=
  | NLit (z : Z) | NHdr (i : nat) | NInt (e : nexp) | NAdd (a b : nexp) | NSub (a b : nexp) | NMul (a b : nexp)
  | NVar (x : Z) | NLen (s : sexp) | NCountLines | NCountScans | NLineNo
  | NCount                                   (* count(): the matches so far, plus this line *)
  | NVarK (x : Z) (key : ustring).           (* @x.key *)

Inductive bexp :=
  | BCmp (o : cmpop) (a b : nexp) | BCmpS (o : cmpop) (a b : sexp)
  | BEq (a b : nexp)                         (* eq(a, b) / equals(a, b) *)
  | BEqEq (a b : nexp) | BEqEqS (a b : sexp) (* a == b *)
  | BBetween (x a b : nexp)
  | BExists (i : nat) | BEmpty (i : nat) | BBare (i : nat)
  | BIn (s : sexp) (opts : list ustring) | BStarts (s : sexp) (p : ustring)
  | BNot (b : bexp) | BAnd (a b : bexp) | BOr (a b : bexp) | BYes | BNo
  | BVarSet (x : Z)                          (* a bare variable as a condition: it exists, i.e. holds something other than None (0, False and "" exist) *)
  | BAllCells (nh : nat).                    (* all(): the line has exactly as many cells as there are headers (nh) and none of them is blank *)

(** bookkeeping functions; [nm] is the id of the variable named by the function's name qualifier; a header argument is a column *)
Inductive agg :=
  | Tally (i : nat)                          (* tally(#h): dictionary 100+i, count per value *)
  | First (nm : Z) (i : nat)                 (* first.nm(#h): line of the first sighting per value; votes on a first sighting *)
  | Every (nm : Z) (i : nat) (n : Z)         (* every.nm(#h, n): count per value; votes when the count is a multiple of n *)
  | Counter (nm : Z) (k : Z)                 (* counter.nm(k) *)
  | Sum (nm : Z) (e : nexp)                  (* sum.nm(e) *)
  | Subtotal (nm : Z) (i : nat) (e : nexp)   (* subtotal.nm(#h, e) *)
  | AssignK (nm : Z) (key : ustring) (e : nexp)    (* @nm.key = e *)
  (* tally(#a, #b) with several arguments is three stores: one per argument (dictionary 100+i, skipped when the value is blank;
     a missing cell counts as the text None) and one under the values joined by '|' (dictionary 99, "tally") *)
  | TallyS (i : nat)
  | TallyC (i j : nat)
  | CounterE (nm : Z) (e : nexp)             (* counter.nm(e): the increment is the argument's value on this line *)
  | CounterEq (nm : Z) (k n : Z)             (* counter.nm(k) == n: the function's value is the counter AFTER this click *)
  | CountIf (v nm : Z) (c : bexp)            (* @v = count.nm(c): dictionary nm counts the lines per answer of c (keys True / False), on every
                                                line the component is evaluated on (no onmatch); v gets the count for this line's answer *)
  | AssignQK (qs : Assign.quals) (nm : Z) (key : ustring) (e : nexp)   (* @nm.key.<qualifiers> = e: the same decision over the value held under that key, written under that key *)
  | AssignQ (qs : Assign.quals) (v : Z) (e : nexp).   (* @v.<qualifiers> = e (no onmatch): written and voted as Match/Assign.do_assignment decides *)
Inductive action := AssignN (x : Z) (e : nexp) | AssignS (x : Z) (e : sexp) | PushN (k : Z) (e : nexp) | PushS (k : Z) (e : sexp) | Pop (x k : Z) | PushD (k : Z) (e : nexp)
  | Agg (g : agg).
Inductive comp := CB (b : bexp) | CAct (a : action) | CWhen (b : bexp) (a : action) | CAgg (g : agg)
  | CMod (na : bool) (i : nat) (k r : Z).    (* mod(#h, k) == r   /   (na) not(above(mod(#h, k), r)), k a non-zero literal: a cell that is not a number makes mod() raise,
                                                and a component that raised declines the line whatever it is wrapped in *)

(** what the match part owns *)
Record mx := mkMx { vars : list (Z * value); stacks : list (Z * list value); dicts : list (Z * list (ustring * value)) }.

Fixpoint ulookup {A} (k : ustring) (l : list (ustring * A)) : option A :=
  match l with [] => None | (k', v) :: r => if ustr_eqb k' k then Some v else ulookup k r end.
Fixpoint uupdate {A} (k : ustring) (v : A) (l : list (ustring * A)) : list (ustring * A) :=
  match l with [] => [(k, v)] | (k', v') :: r => if ustr_eqb k' k then (k', v) :: r else (k', v') :: uupdate k v r end.

Fixpoint lookup {A} (k : Z) (l : list (Z * A)) : option A :=
  match l with [] => None | (k', v) :: r => if k' =? k then Some v else lookup k r end.
Fixpoint update {A} (k : Z) (v : A) (l : list (Z * A)) : list (Z * A) :=
  match l with [] => [(k, v)] | (k', v') :: r => if k' =? k then (k', v) :: r else (k', v') :: update k v r end.

(** Python's int(text) / float(text) on integer text: optional sign, digits (the generators produce nothing else in numeric cells) *)
Fixpoint digits (s : ustring) (acc : Z) : option Z :=
  match s with
  | [] => Some acc
  | c :: r => if (48 <=? c) && (c <=? 57) then digits r (acc * 10 + (c - 48)) else None
  end.
Definition parse_int (s : ustring) : option Z :=
  match strip s with
  | 45 :: (d :: r) => option_map Z.opp (digits (d :: r) 0)
  | d :: r => digits (d :: r) 0
  | [] => None
  end.

(** str(n) *)
Fixpoint digits_of (fuel : nat) (n : Z) (acc : ustring) : ustring :=
  match fuel with
  | O => acc
  | S f => if n <? 10 then (48 + n) :: acc else digits_of f (n / 10) ((48 + n mod 10) :: acc)
  end.
Definition str_int (z : Z) : ustring :=
  if z <? 0 then 45 :: digits_of 40 (- z) [] else digits_of 40 z [].
Definition str_val (v : value) : ustring :=
  match v with
  | VI z => str_int z
  | VF z => str_int z ++ [46; 48]                (* 17.0 *)
  | VS s => s
  | VNone => [78; 111; 110; 101]
  end.

Fixpoint str_ltb (a b : ustring) : bool :=      (* Python's str < *)
  match a, b with
  | _, [] => false
  | [], _ :: _ => true
  | x :: a', y :: b' => if x <? y then true else if y <? x then false else str_ltb a' b'
  end.

Definition lower_c (c : Z) : Z := if (65 <=? c) && (c <=? 90) then c + 32 else c.
Definition upper_c (c : Z) : Z := if (97 <=? c) && (c <=? 122) then c - 32 else c.

(** counter.nm(...) creates its variable (0) when the csvpath is validated: the matcher is built (and validated) when the
    first line reaches the match part, so a run that offers no line leaves no such variable *)
Definition agg_init (g : agg) (vs : list (Z * value)) : list (Z * value) :=
  match g with Counter nm _ | CounterE nm _ | CounterEq nm _ _ => match lookup nm vs with Some _ => vs | None => vs ++ [(nm, VI 0)] end | _ => vs end.
Definition comp_init (vs : list (Z * value)) (c : comp) : list (Z * value) :=
  match c with CAgg g | CAct (Agg g) | CWhen _ (Agg g) => agg_init g vs | _ => vs end.
Definition init_vars (cs : list comp) (vs : list (Z * value)) : list (Z * value) := fold_left comp_init cs vs.


Section Eval.
  Variable q : quirks.
  Variable blanks : list bool.             (* which records of the file are blank (for count_lines) *)
  Variable AND : bool.

  Definition cst := rs mx.
  Definition cell (l : line ustring) (i : nat) : option ustring := option_map strip (nth_error l i).

  Definition data_lines (n : Z) : Z :=
    Z.of_nat (length (filter negb (firstn (Z.to_nat (n + 1)) blanks))).

  Fixpoint seval (s : cst) (l : line ustring) (e : sexp) : ustring :=
    match e with
    | SLit t => t
    | SHdr i => match cell l i with Some t => t | None => [] end
    | SLower t => map lower_c (seval s l t)
    | SUpper t => map upper_c (seval s l t)
    | SConcat a b => seval s l a ++ seval s l b
    | SVar vn => match lookup vn (vars (x mx s)) with Some v => str_val v | None => [] end
    end.

  (** value and Python type of the value: 0 = str (header text), 1 = int, 2 = float (matters only for
      the D2 switch and for what an assignment stores) *)
  Fixpoint neval (s : cst) (l : line ustring) (e : nexp) : Z * Z :=
    match e with
    | NLit z => (z, 1)
    | NHdr i => (match cell l i with Some t => match parse_int t with Some z => z | None => 0 end | None => 0 end, 0)
    | NInt e' => (fst (neval s l e'), 1)
    | NAdd a b => (fst (neval s l a) + fst (neval s l b), 2)
    | NSub a b => (fst (neval s l a) - fst (neval s l b), 2)
    | NMul a b => (fst (neval s l a) * fst (neval s l b), 2)
    | NVar vn => (match lookup vn (vars (x mx s)) with
                 | Some (VI z) => (z, 1) | Some (VF z) => (z, 2)
                 | Some (VS t) => (match parse_int t with Some z => z | None => 0 end, 0)
                 | _ => (0, 1) end)
    | NLen t => (Z.of_nat (length (strip (seval s l t))), 1)
    | NCountLines => (data_lines (pln mx s), 1)
    | NCountScans => (scan_count mx s, 1)
    | NLineNo => (pln mx s, 1)
    | NCount => (match_count mx s + 1, 1)
    | NVarK vn key => (match (match lookup vn (dicts (x mx s)) with Some d => ulookup key d | None => None end) with
                      | Some (VI z) => (z, 1) | Some (VF z) => (z, 2)
                      | Some (VS t) => (match parse_int t with Some z => z | None => 0 end, 0)
                      | _ => (0, 1) end)
    end.

  (** the value an expression has as a Python object: what an assignment stores / push pushes *)
  Definition nvalue (s : cst) (l : line ustring) (e : nexp) : value :=
    match e with
    | NLit z => VI z
    | NHdr i => match cell l i with Some t => VS t | None => VNone end
    | NInt _ | NLen _ | NCountLines | NCountScans | NLineNo | NCount => VI (fst (neval s l e))
    | NVarK vn key => match (match lookup vn (dicts (x mx s)) with Some d => ulookup key d | None => None end) with Some v => v | None => VNone end
    | NAdd _ _ | NSub _ _ | NMul _ _ => VF (fst (neval s l e))
    | NVar vn => match lookup vn (vars (x mx s)) with Some v => v | None => VNone end
    end.

  Definition cmp_num (o : cmpop) (a b : Z) : bool :=
    match o with
    | Gt => b <? a | Gte => b <=? a
    | Lt => if q_lt q then a <=? b else a <? b
    | Lte => a <=? b
    end.
  Definition cmp_str (o : cmpop) (a b : ustring) : bool :=
    let a := strip a in let b := strip b in
    match o with
    | Gt => str_ltb b a | Gte => negb (str_ltb a b)
    | Lt => if q_lt q then negb (str_ltb b a) else str_ltb a b
    | Lte => negb (str_ltb b a)
    end.

  Fixpoint is_prefix_of (p t : ustring) : bool :=
    match p, t with [], _ => true | c1 :: p', c2 :: t' => (c1 =? c2) && is_prefix_of p' t' | _, _ => false end.

  Definition text_of (s : cst) (l : line ustring) (e : nexp) : ustring := str_val (nvalue s l e).
  Definition is_vnone (v : value) : bool := match v with VNone => true | _ => false end.

  Definition is_blank_text (t : ustring) : bool := match strip t with [] => true | _ => false end.

  (** Python's == on the values a stack can hold: 3 == 3.0, "3" != 3, None == None *)
  Definition val_eqb (a b : value) : bool :=
    match a, b with
    | VI x, VI y | VI x, VF y | VF x, VI y | VF x, VF y => x =? y
    | VS x, VS y => ustr_eqb x y
    | VNone, VNone => true
    | _, _ => false
    end.

  (** float(v) succeeds: a number, or text that reads as one *)
  Definition floatable (v : value) : bool :=
    match v with VI _ | VF _ => true | VS t => match parse_int t with Some _ => true | None => false end | VNone => false end.

  Fixpoint beval (s : cst) (l : line ustring) (b : bexp) : bool :=
    match b with
    | BCmp o a c =>
        (* AboveBelow: numbers when both operands are numbers; D2: only when both are Python numbers of the same type *)
        if q_strcmp q && ((snd (neval s l a) =? 0) || negb (snd (neval s l a) =? snd (neval s l c)))
        then cmp_str o (text_of s l a) (text_of s l c)
        else if xorb (is_vnone (nvalue s l a)) (is_vnone (nvalue s l c)) then false      (* exactly one operand is None (a cell the record lacks): not above, not below *)
        else if floatable (nvalue s l a) && floatable (nvalue s l c) then cmp_num o (fst (neval s l a)) (fst (neval s l c))
        else cmp_str o (text_of s l a) (text_of s l c)                                   (* an operand that is not a number (an empty cell, text): compared as text *)
    | BCmpS o a c => cmp_str o (seval s l a) (seval s l c)
    | BEq a c =>          (* equals(): one side None: no; both None: yes; both numbers: as numbers; otherwise as text *)
        let va := nvalue s l a in let vc := nvalue s l c in
        if xorb (is_vnone va) (is_vnone vc) then false
        else if is_vnone va then true
        else if floatable va && floatable vc then fst (neval s l a) =? fst (neval s l c)
        else ustr_eqb (str_val va) (str_val vc)
    | BEqEq a c =>        (* ==: equal as trimmed text, or equal as Python values *)
        let va := nvalue s l a in let vc := nvalue s l c in
        ustr_eqb (strip (str_val va)) (strip (str_val vc)) || val_eqb va vc
    | BEqEqS a c => ustr_eqb (strip (seval s l a)) (strip (seval s l c))
    | BBetween e0 a c =>      (* between(): any side None: no; all three numbers: strictly between as numbers; otherwise strictly between as trimmed text *)
        let v0 := nvalue s l e0 in let va := nvalue s l a in let vc := nvalue s l c in
        if is_vnone v0 || is_vnone va || is_vnone vc then false
        else if floatable v0 && floatable va && floatable vc then
          let v := fst (neval s l e0) in let lo := Z.min (fst (neval s l a)) (fst (neval s l c)) in
          let hi := Z.max (fst (neval s l a)) (fst (neval s l c)) in (lo <? v) && (v <? hi)
        else
          let t0 := strip (str_val v0) in let ta := strip (str_val va) in let tc := strip (str_val vc) in
          if str_ltb tc ta then str_ltb tc t0 && str_ltb t0 ta else str_ltb ta t0 && str_ltb t0 tc
    | BExists i | BBare i => match cell l i with Some (_ :: _) => true | _ => false end
    | BEmpty i => match cell l i with Some (_ :: _) => false | _ => true end
    | BIn t opts => existsb (ustr_eqb (seval s l t)) (map strip opts)
    | BStarts t p => is_prefix_of (strip p) (strip (seval s l t))
    | BNot b' => negb (beval s l b')
    | BAnd a c => beval s l a && beval s l c
    | BOr a c => beval s l a || beval s l c
    | BYes => true
    | BNo => false
    | BVarSet v => match lookup v (vars (x mx s)) with Some VNone | None => false | Some _ => true end
    | BAllCells nh => (length l =? nh)%nat && forallb (fun t => negb (is_blank_text t)) l
    end.

  Definition with_mx (s : cst) (m : mx) : cst :=
    mkRs mx (pln mx s) (scan_count mx s) (match_count mx s) (cur_mc mx s) (adv mx s) (stopped mx s) (frozen mx s) m.

  (** the bookkeeping functions: new state, and the vote the function casts as a component of its own *)
  Definition hdr_key (l : line ustring) (i : nat) : ustring := match cell l i with Some t => t | None => [] end.
  Definition dget (m : mx) (nm : Z) (key : ustring) : option value :=
    match lookup nm (dicts m) with Some d => ulookup key d | None => None end.
  Definition ensure_key (m : mx) (nm : Z) (key : ustring) : mx :=
    match lookup nm (dicts m) with
    | None | Some [] => mkMx (vars m) (stacks m) (update nm [(key, VNone)] (dicts m))
    | Some _ => m
    end.
  Definition dset (m : mx) (nm : Z) (key : ustring) (v : value) : mx :=
    mkMx (vars m) (stacks m) (update nm (uupdate key v (match lookup nm (dicts m) with Some d => d | None => [] end)) (dicts m)).
  Definition num_of (v : option value) : Z := match v with Some (VI z) | Some (VF z) => z | _ => 0 end.

  (** f"{header value}": the cell's text, or the text None for a cell the record does not have *)
  Definition tally_text (l : line ustring) (i : nat) : ustring := match cell l i with Some t => t | None => [78; 111; 110; 101] end.
  Definition py_true : ustring := [84; 114; 117; 101].
  Definition py_false : ustring := [70; 97; 108; 115; 101].

  (** ExpressionUtility.is_none on the modelled values: None, or text that is blank *)
  Definition none_like (v : value) : bool := match v with VNone => true | VS t => is_blank_text t | _ => false end.

  (** the values of Match/Assign.v (None | int | str); a float is read as the integer it holds (not generated) *)
  Definition aval_of (v : value) : Assign.aval :=
    match v with VI z | VF z => Assign.AInt z | VS t => Assign.AStr t | VNone => Assign.ANone end.

  Definition do_agg (s : cst) (l : line ustring) (g : agg) : cst * bool :=
    let m := x mx s in
    match g with
    | Tally i =>
        let key := hdr_key l i in
        (with_mx s (dset m (100 + Z.of_nat i) key (VI (num_of (dget m (100 + Z.of_nat i) key) + 1))), true)
    | First nm i =>
        let key := hdr_key l i in
        match dget m nm key with
        | None | Some VNone => (with_mx s (dset m nm key (VI (pln mx s))), true)
        | Some _ => (s, false)
        end
    | Every nm i n =>
        let key := hdr_key l i in
        let cnt := num_of (dget m nm key) + 1 in
        (with_mx s (dset m nm key (VI cnt)), cnt mod n =? 0)
    | Counter nm k =>
        (with_mx s (mkMx (update nm (VI (num_of (lookup nm (vars m)) + k)) (vars m)) (stacks m) (dicts m)), AND)
    | Sum nm e =>          (* a value that is none (a missing or blank cell) adds the int 0: the total keeps its value and its type; anything else is added as a float *)
        if none_like (nvalue s l e)
        then (with_mx s (mkMx (update nm (match lookup nm (vars m) with Some old => old | None => VI 0 end) (vars m)) (stacks m) (dicts m)), AND)
        else (with_mx s (mkMx (update nm (VF (num_of (lookup nm (vars m)) + fst (neval s l e))) (vars m)) (stacks m) (dicts m)), AND)
    | Subtotal nm i e =>
        let key := hdr_key l i in
        (with_mx s (dset m nm key (VF (num_of (dget m nm key) + fst (neval s l e)))), AND)
    | AssignK nm key e => (with_mx s (dset m nm key (nvalue s l e)), AND)
    | TallyS i =>
        let key := tally_text l i in
        if is_blank_text key then (s, true)
        else (with_mx s (dset m (100 + Z.of_nat i) key (VI (num_of (dget m (100 + Z.of_nat i) key) + 1))), true)
    | TallyC i j =>
        let key := tally_text l i ++ [124] ++ tally_text l j in
        (with_mx s (dset m 99 key (VI (num_of (dget m 99 key) + 1))), true)
    | CounterE nm e =>
        (with_mx s (mkMx (update nm (VI (num_of (lookup nm (vars m)) + fst (neval s l e))) (vars m)) (stacks m) (dicts m)), AND)
    | CounterEq nm k n =>
        let cnt := num_of (lookup nm (vars m)) + k in
        (with_mx s (mkMx (update nm (VI cnt) (vars m)) (stacks m) (dicts m)), cnt =? n)
    | AssignQ qs v e =>
        let y := nvalue s l e in
        match Assign.do_assignment qs true (aval_of (match lookup v (vars m) with Some c0 => c0 | None => VNone end)) (aval_of y) with
        | Some (true, vote) => (with_mx s (mkMx (update v y (vars m)) (stacks m) (dicts m)), vote)
        | Some (false, vote) => (s, vote)
        | None => (s, false)               (* an int compared with text: Python raises; not generated *)
        end
    | AssignQK qs nm key e =>
        (* reading the current value of a variable that does not exist yet (or is an empty dictionary) creates it as {key: None} (CsvPath.get_variable) *)
        let m1 := ensure_key m nm key in
        let y := nvalue s l e in
        match Assign.do_assignment qs true (aval_of (match dget m nm key with Some c0 => c0 | None => VNone end)) (aval_of y) with
        | Some (true, vote) => (with_mx s (dset m1 nm key y), vote)
        | Some (false, vote) => (with_mx s m1, vote)
        | None => (with_mx s m1, false)
        end
    | CountIf v nm c =>
        let key := if beval s l c then py_true else py_false in
        let cnt := num_of (dget m nm key) + 1 in
        let m1 := dset m nm key (VI cnt) in
        (with_mx s (mkMx (update v (VI cnt) (vars m1)) (stacks m1) (dicts m1)), AND)
    end.

  Definition do_action (s : cst) (l : line ustring) (a : action) : cst :=
    let m := x mx s in
    match a with
    | Agg g => fst (do_agg s l g)
    | AssignN v e => with_mx s (mkMx (update v (nvalue s l e) (vars m)) (stacks m) (dicts m))
    | AssignS v e => with_mx s (mkMx (update v (VS (seval s l e)) (vars m)) (stacks m) (dicts m))
    | PushN k e => with_mx s (mkMx (vars m) (update k ((match lookup k (stacks m) with Some st => st | None => [] end) ++ [nvalue s l e]) (stacks m)) (dicts m))
    | PushS k e => with_mx s (mkMx (vars m) (update k ((match lookup k (stacks m) with Some st => st | None => [] end) ++ [VS (seval s l e)]) (stacks m)) (dicts m))
    | PushD k e =>        (* push_distinct(): nothing is pushed when the stack already holds an equal value (the stack is created all the same) *)
        let st := match lookup k (stacks m) with Some st => st | None => [] end in
        let v := nvalue s l e in
        with_mx s (mkMx (vars m) (update k (if existsb (val_eqb v) st then st else st ++ [v]) (stacks m)) (dicts m))
    | Pop v k =>
        let st := match lookup k (stacks m) with Some st => st | None => [] end in
        match rev st with
        | [] => with_mx s (mkMx (update v VNone (vars m)) (update k [] (stacks m)) (dicts m))
        | top :: _ =>
            let rest := firstn (length st - (if q_pop q then 2 else 1)) st in
            with_mx s (mkMx (update v top (vars m)) (update k rest (stacks m)) (dicts m))
        end
    end.

  (** one top-level component: new state and vote *)
  Definition eval (c : comp) (s : cst) (l : line ustring) : cst * bool :=
    match c with
    | CB b => (s, beval s l b)
    | CAct a => (do_action s l a, AND)          (* default_match(): neutral for the logic mode *)
    | CWhen b a => if beval s l b then (do_action s l a, true) else (s, false)
    | CAgg g => do_agg s l g
    | CMod na i k r =>
        (s, match cell l i with
            | Some t => match parse_int t with
                        | Some z => if na then negb (r <? z mod k) else (z mod k =? r)      (* Python's float %: the result takes the divisor's sign, as Z.modulo *)
                        | None => false end
            | None => false end)
    end.

  (** CsvPath.matches for a CORE program: the adjudication loop over the components *)
  Definition ensure (cs : list comp) (s : cst) : cst :=     (* a frozen run (the blank final record) creates nothing *)
    if frozen mx s then s else with_mx s (mkMx (init_vars cs (vars (x mx s))) (stacks (x mx s)) (dicts (x mx s))).
  Definition core_m (cs : list comp) (end_ : option Z) (s0 : cst) (l : line ustring) : cst * bool :=
    let s := ensure cs s0 in
    if oeqb end_ (pln mx s) && is_nil l then (s, true)
    else let '(s', b, _) := matches cst comp (stopped mx) (fun _ => false) (fun s => s) (fun c s => eval c s l) (fun s => s) false AND cs s in (s', b).
End Eval.

Definition core_run (q : quirks) (AND cw : bool) (sc0 : sc) (cs : list comp) (recs : list (line ustring)) : ls ustring mx :=
  let blanks := map (fun r => match r with [] => true | _ => false end) recs in
  let c := mkCfg sc0 false (end_of ustring recs) cw true false true in
  collect ustring mx (core_m q blanks AND cs (end_of ustring recs)) c (mkMx [] [] []) recs.
