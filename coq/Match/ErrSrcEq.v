(** The functions generated from csvpath/util/error.py (Match/ErrSrc.v) equal the hand-written model of error handling
    (Match/Errors.v): for every configured policy (any list of its words, in any order, repeated or not), every validation-mode
    override and every handler state, ErrorCommsManager.do_i_* as written in the source return the model's answers, and the effects
    ErrorHandler._handle_if performs, in the order the source performs them, leave exactly the state — and end with exactly the
    raise — that the model's [handle] says.  Re-checked against the regenerated ErrSrc.v on every run of C04 / C05. *)
From Coq Require Import ZArith List Bool.
From V Require Import Scan.PySem Match.ErrEv Match.ErrSrc Match.Errors.
Import ListNotations.
Open Scope Z_scope.

(** the configured policy as the source sees it: a list of words (codes raise 0, collect 1, stop 2, fail 3, print 4, quiet 5) *)
Definition pol_of (l : list Z) : policy :=
  mkPol (existsb (Z.eqb 0) l) (existsb (Z.eqb 1) l) (existsb (Z.eqb 2) l) (existsb (Z.eqb 3) l) (existsb (Z.eqb 4) l) (existsb (Z.eqb 5) l).
Definition ovv (o : option bool) : pyv := match o with Some b => PBool b | None => PNone end.
(** the CsvPath instance / the Error object: some value that is not None and is truthy *)
Definition obj : pyv := PBool true.

Theorem do_i_raise_src_eq l v : do_i_raise_src obj (ovv (v_raise v)) (PList l) = PBool (do_i_raise (pol_of l) v).
Proof. unfold do_i_raise_src, do_i_raise, flag. destruct (v_raise v) as [[|]|]; reflexivity. Qed.
Theorem do_i_print_src_eq l v : do_i_print_src obj (ovv (v_print v)) (PList l) = PBool (do_i_print (pol_of l) v).
Proof. unfold do_i_print_src, do_i_print, flag. destruct (v_print v) as [[|]|]; reflexivity. Qed.
Theorem do_i_stop_src_eq l v : do_i_stop_src obj (ovv (v_stop v)) (PList l) = PBool (do_i_stop (pol_of l) v).
Proof. unfold do_i_stop_src, do_i_stop, flag. destruct (v_stop v) as [[|]|]; reflexivity. Qed.
Theorem do_i_fail_src_eq l v : do_i_fail_src obj (ovv (v_fail v)) (PList l) = PBool (do_i_fail (pol_of l) v).
Proof. unfold do_i_fail_src, do_i_fail, flag. destruct (v_fail v) as [[|]|]; reflexivity. Qed.

(** what a list of effects does to the handler's state on the error of [line] *)
Fixpoint apply_evs (evs : list ev) (s : hstate) (line : Z) : outcome :=
  match evs with
  | [] => Done s
  | EvStop :: r => apply_evs r (mkHs (h_errors s) true (h_valid s) (h_printed s)) line
  | EvCollect :: r => apply_evs r (mkHs (h_errors s ++ [line]) (h_stopped s) (h_valid s) (h_printed s)) line
  | EvFail :: r => apply_evs r (mkHs (h_errors s) (h_stopped s) false (h_printed s)) line
  | EvPrint :: r => apply_evs r (mkHs (h_errors s) (h_stopped s) (h_valid s) (h_printed s ++ [line])) line
  | EvRaise :: _ => Raised s
  | EvInputErr :: _ | EvPyErr :: _ => Crashed s
  end.

Theorem handle_if_src_eq l v s line :
  apply_evs (handle_if_src obj obj (PList l) (ovv (v_raise v)) (ovv (v_print v)) (ovv (v_stop v)) (ovv (v_fail v))) s line
  = handle false (pol_of l) v s line.
Proof.
  unfold handle_if_src. rewrite do_i_raise_src_eq, do_i_print_src_eq, do_i_stop_src_eq, do_i_fail_src_eq.
  unfold handle. cbn [andb p_quiet p_collect pol_of].
  destruct (do_i_raise (pol_of l) v); destruct (do_i_print (pol_of l) v); destruct (do_i_stop (pol_of l) v); destruct (do_i_fail (pol_of l) v);
    unfold p_in, as_int; destruct (existsb (Z.eqb 5) l); destruct (existsb (Z.eqb 1) l);
    destruct s as [er [|] [|] pr]; reflexivity.
Qed.
