(** Model of the assignment decision of Equality (csvpath/matching/productions/equality.py):
    _do_assignment_new_impl, _latch_and_onchange, _set_variable_if, and ExpressionUtility.asbool,
    over Python values None | int | str.  [None] as a result = Python raises TypeError
    (ordered comparison of an int with a str).  No proofs here. *)
From Coq Require Import ZArith List Bool.
Import ListNotations.
Open Scope Z_scope.

Inductive aval := ANone | AInt (z : Z) | AStr (s : list Z).

Record quals := mkQ { onmatch : bool; latch : bool; onchange : bool; increase : bool; decrease : bool;
                      notnone : bool; asbool_q : bool; nocontrib : bool }.

Fixpoint str_eqb (a b : list Z) : bool :=
  match a, b with [], [] => true | x :: a', y :: b' => (x =? y) && str_eqb a' b' | _, _ => false end.
(** Python's str <= : lexicographic on code points *)
Fixpoint str_leb (a b : list Z) : bool :=
  match a, b with
  | [], _ => true
  | _ :: _, [] => false
  | x :: a', y :: b' => if x <? y then true else if y <? x then false else str_leb a' b'
  end.

Definition py_eq (a b : aval) : bool :=
  match a, b with
  | ANone, ANone => true
  | AInt x, AInt y => x =? y
  | AStr x, AStr y => str_eqb x y
  | _, _ => false
  end.
Definition is_none (a : aval) : bool := match a with ANone => true | _ => false end.
Definition truthy (a : aval) : bool :=
  match a with ANone => false | AInt z => negb (z =? 0) | AStr [] => false | AStr _ => true end.
(** a >= b / a <= b ; None = TypeError *)
Definition py_ge (a b : aval) : option bool :=
  match a, b with
  | AInt x, AInt y => Some (y <=? x)
  | AStr x, AStr y => Some (str_leb y x)
  | _, _ => None
  end.
Definition py_le (a b : aval) : option bool := py_ge b a.

(** ASCII lower(), str.strip() on blanks; enough for the values the property ranges over *)
Definition lower (c : Z) : Z := if (65 <=? c) && (c <=? 90) then c + 32 else c.
Definition is_sp (c : Z) : bool := (c =? 32) || ((9 <=? c) && (c <=? 13)).
Fixpoint lstrip (s : list Z) : list Z := match s with c :: r => if is_sp c then lstrip r else s | [] => [] end.
Definition strip (s : list Z) : list Z := rev (lstrip (rev (lstrip s))).
Definition s_false := [102; 97; 108; 115; 101].
Definition s_true := [116; 114; 117; 101].
Definition s_nan := [110; 97; 110].
Definition s_NaN := [78; 97; 78].

Definition asbool (v : aval) : bool :=
  match v with
  | ANone => false
  | AInt z => negb (z =? 0)
  | AStr s =>
      let t := strip s in
      if str_eqb (map lower t) s_false then false
      else if str_eqb t s_nan || str_eqb t s_NaN then false
      else if str_eqb (map lower t) s_true then true
      else match s with [] => false | _ => true end
  end.

(** _set_variable_if: (write?, ret) *)
Definition blocks (active : bool) (cmp : aval -> aval -> option bool) (cur y : aval) : option bool :=
  if negb active then Some false
  else if negb (truthy cur) && negb (truthy y) then Some true
  else if negb (truthy y) then Some true
  else if is_none cur then Some false
  else cmp cur y.

Definition set_variable_if (q : quals) (ret : bool) (cur y : aval) : option (bool * bool) :=
  if notnone q && is_none y then Some (false, negb ret)
  else match blocks (increase q) py_ge cur y with
       | None => None
       | Some true => Some (false, negb ret)
       | Some false =>
           match blocks (decrease q) py_le cur y with
           | None => None
           | Some true => Some (false, negb ret)
           | Some false => Some (true, ret)
           end
       end.

Definition latch_and_onchange (q : quals) (ret : bool) (cur y : aval) : option (bool * bool) :=
  if negb (py_eq cur y) then
    if is_none cur || negb (latch q) then set_variable_if q true cur y
    else Some (false, ret)
  else if onchange q then Some (false, false)
  else Some (false, ret).

(** [lm] = Qualified.line_matches() of the rest of the line (only consulted under onmatch) *)
Definition do_assignment (q : quals) (lm : bool) (cur y : aval) : option (bool * bool) :=
  let r :=
    if negb (onmatch q) || lm then
      if latch q || onchange q then latch_and_onchange q true cur y
      else set_variable_if q true cur y
    else Some (false, false) in
  match r with
  | None => None
  | Some (w, ret) =>
      let ret := if asbool_q q && ret then asbool y else ret in
      let ret := if nocontrib q then true else ret in
      Some (w, ret)
  end.

(** * the documented table, stated on conditions rather than control flow *)
Definition gate (q : quals) (lm : bool) : bool := negb (onmatch q) || lm.
Definition same (q : quals) (cur y : aval) : bool := (latch q || onchange q) && py_eq cur y.
Definition latched (q : quals) (cur y : aval) : bool := latch q && negb (is_none cur) && negb (py_eq cur y).
Definition obool (o : option bool) : bool := match o with Some b => b | None => false end.
Definition inc_blocks (q : quals) (cur y : aval) : bool :=
  increase q && (negb (truthy y) || (negb (is_none cur) && obool (py_ge cur y))).
Definition dec_blocks (q : quals) (cur y : aval) : bool :=
  decrease q && (negb (truthy y) || (negb (is_none cur) && obool (py_le cur y))).
Definition guard_blocks (q : quals) (cur y : aval) : bool :=
  (notnone q && is_none y) || inc_blocks q cur y || dec_blocks q cur y.
Definition write (q : quals) (lm : bool) (cur y : aval) : bool :=
  gate q lm && negb (same q cur y) && negb (latched q cur y) && negb (guard_blocks q cur y).
Definition vote0 (q : quals) (lm : bool) (cur y : aval) : bool :=
  if negb (gate q lm) then false
  else if same q cur y then negb (onchange q)       (* no change: onchange objects, latch does not *)
  else if latched q cur y then true                 (* latch blocks silently: never a negative vote *)
  else negb (guard_blocks q cur y).
Definition vote (q : quals) (lm : bool) (cur y : aval) : bool :=
  let v := vote0 q lm cur y in
  let v := if asbool_q q && v then asbool y else v in
  if nocontrib q then true else v.

(** same kind of value on both sides, or one side absent: the comparison cannot raise *)
Definition comparable (cur y : aval) : bool :=
  match cur, y with
  | AInt _, AStr _ | AStr _, AInt _ => false
  | _, _ => true
  end.

(** * run level: [ @x.<quals> = #a   <rest> ] over the lines of a file.
    Per line: y = the value of #a, cur = the current value of x, lm = the vote of the rest of
    the line; x is written iff the decision says so; the line is returned iff the assignment's
    vote and the rest's vote both hold (AND mode). *)
Record arow := mkArow { a_y : aval; a_rest : bool }.

Definition assign_step (q : quals) (st : option (aval * list (bool * aval))) (r : arow) : option (aval * list (bool * aval)) :=
  match st with
  | None => None
  | Some (cur, out) =>
      match do_assignment q (a_rest r) cur (a_y r) with
      | None => None
      | Some (w, v) =>
          let cur' := if w then a_y r else cur in
          Some (cur', out ++ [(v && a_rest r, cur')])
      end
  end.

(** result: per line (returned?, value of x after the line); None = the run raised *)
Definition assign_run (q : quals) (rows : list arow) : option (list (bool * aval)) :=
  option_map snd (fold_left (assign_step q) rows (Some (ANone, []))).
