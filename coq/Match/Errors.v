(** Model of error handling (csvpath/util/error.py: ErrorCommsManager, ErrorHandler._handle_if;
    csvpath/modes/validation_mode.py; Expression.matches' vote under pending errors).
    [q_quiet] is the deviation switch for defect D5: with 'quiet' in the policy _handle_if read a
    non-existent attribute and died with AttributeError before doing anything.  No proofs here. *)
From Coq Require Import ZArith List Bool.
Import ListNotations.
Open Scope Z_scope.

Record policy := mkPol { p_raise : bool; p_collect : bool; p_stop : bool; p_fail : bool; p_print : bool; p_quiet : bool }.
(** the csvpath's own validation-mode comment: None = not mentioned *)
Record vmode := mkVm { v_raise : option bool; v_print : option bool; v_stop : option bool; v_fail : option bool; v_match : option bool }.

Definition flag (o : option bool) (p : bool) : bool := match o with Some b => b | None => p end.
Definition do_i_raise (p : policy) (v : vmode) := flag (v_raise v) (p_raise p).
Definition do_i_print (p : policy) (v : vmode) := flag (v_print v) (p_print p).
Definition do_i_stop (p : policy) (v : vmode) := flag (v_stop v) (p_stop p).
Definition do_i_fail (p : policy) (v : vmode) := flag (v_fail v) (p_fail p).

(** what an error can touch: collected error records (their line numbers), the stop flag,
    the verdict, the messages sent to the printers (line numbers of the errors) *)
Record hstate := mkHs { h_errors : list Z; h_stopped : bool; h_valid : bool; h_printed : list Z }.

Inductive outcome := Done (s : hstate) | Raised (s : hstate) | Crashed (s : hstate).

Definition handle (q_quiet : bool) (p : policy) (v : vmode) (s : hstate) (line : Z) : outcome :=
  if q_quiet && p_quiet p then Crashed s
  else
    let s1 := mkHs (if p_collect p then h_errors s ++ [line] else h_errors s)
                   (h_stopped s || do_i_stop p v)
                   (h_valid s && negb (do_i_fail p v))
                   (if do_i_print p v then h_printed s ++ [line] else h_printed s) in
    if do_i_raise p v then Raised s1 else Done s1.

(** several pending errors of one line are handled in order; the first raise ends it *)
Fixpoint handle_all (q : bool) (p : policy) (v : vmode) (s : hstate) (lines : list Z) : outcome :=
  match lines with
  | [] => Done s
  | l :: r => match handle q p v s l with
              | Done s1 => handle_all q p v s1 r
              | o => o
              end
  end.

(** validation-mode text -> settings (ValidationMode.set_*_validation_errors): "no-x" wins over "x" *)
Definition vm_setting (has_no has_yes : bool) : option bool := if has_no then Some false else if has_yes then Some true else None.

(** Expression.matches + the test `et[0].matches() is False` in Matcher.matches:
    [raised] an exception escaped the children (match stays None), [child] the AND of the
    children's answers otherwise, [pending] some error was recorded below. *)
Definition expr_vote (match_mode : bool) (raised pending child : bool) : bool :=
  let m := if raised then None else Some child in
  let m := if (raised || pending) && negb match_mode then Some false else m in
  match m with Some false => false | _ => true end.
