(** The lexer reads back every well-formed token stream rendered with any legal layout. *)
From Coq Require Import ZArith List Bool Lia ZifyBool.
From V Require Import Csv.CsvModel Data.DataModel Match.Syntax.
Import ListNotations.
Open Scope Z_scope.

Definition all (p : Z -> bool) (s : ustring) : bool := forallb p s.

(** a well-formed REGEX_INNER: no unescaped slash, no dangling backslash *)
Fixpoint regex_ok (esc : bool) (s : ustring) : bool :=
  match s with
  | [] => negb esc
  | c :: r => if esc then regex_ok false r else if c =? 47 then false else if c =? 92 then regex_ok true r else regex_ok false r
  end.

Definition wf_tok (t : tok) : bool :=
  match t with
  | THdr s | TVar s | TRef s => nonempty s && all idc s
  | THdrQ s => nonempty s && all hqc s
  | TName s => match s with c :: r => is_letter c && all idc r | [] => false end
  | TStr s => all (fun c => negb (c =? 34)) s
  | TComment s => all (fun c => negb (c =? 126)) s
  | TNum _ ip fp => nonempty ip && all is_digit ip && match fp with Some f => nonempty f && all is_digit f | None => true end
  | TRegex s => regex_ok false s
  | _ => true
  end.

Definition hd_ok (p : Z -> bool) (rest : ustring) : bool := match rest with [] => true | c :: _ => p c end.

(** what may follow a token for it to end where it should *)
Definition stops (t : tok) (rest : ustring) : bool :=
  match t with
  | TAssign => hd_ok (fun c => negb (c =? 61)) rest
  | THdr _ | TVar _ | TRef _ | TName _ => hd_ok (fun c => negb (idc c)) rest
  | TNum _ _ _ => hd_ok (fun c => negb (is_digit c) && negb (c =? 46)) rest
  | _ => true
  end.

Lemma span_all p : forall (a : ustring) rest, all p a = true -> hd_ok (fun c => negb (p c)) rest = true -> Syntax.span p (a ++ rest) = (a, rest).
Proof.
  induction a as [|x a IH]; intros rest Ha Hr.
  - destruct rest as [|c r]; [reflexivity|]. cbn in Hr |- *. apply negb_true_iff in Hr. rewrite Hr. reflexivity.
  - cbn. cbn in Ha. apply andb_prop in Ha. destruct Ha as [Hx Ha]. rewrite Hx, (IH rest Ha Hr). reflexivity.
Qed.

Lemma hd_ok_weaken (p q : Z -> bool) rest : (forall c, p c = true -> q c = true) -> hd_ok p rest = true -> hd_ok q rest = true.
Proof. destruct rest; cbn; auto. Qed.

Lemma lex_id_ok mk s rest : nonempty s = true -> all idc s = true -> hd_ok (fun c => negb (idc c)) rest = true ->
  lex_id mk (s ++ rest) = Some (mk s, rest).
Proof. intros Hn Hs Hr. unfold lex_id. rewrite (span_all idc s rest Hs Hr), Hn. reflexivity. Qed.

Lemma lex_delimited_ok q mk s rest : all (fun c => negb (c =? q)) s = true -> lex_delimited q mk (s ++ q :: rest) = Some (mk s, rest).
Proof.
  intros Hs. unfold lex_delimited.
  rewrite (span_all (fun c => negb (c =? q)) s (q :: rest) Hs) by (cbn; rewrite Z.eqb_refl; reflexivity).
  rewrite Z.eqb_refl. reflexivity.
Qed.

Lemma lex_number_ok neg ip fp rest : wf_tok (TNum neg ip fp) = true -> stops (TNum neg ip fp) rest = true ->
  lex_number neg (ip ++ (match fp with Some f => 46 :: f | None => [] end) ++ rest) = Some (TNum neg ip fp, rest).
Proof.
  cbn [wf_tok stops]. intros Hw Hs. apply andb_prop in Hw. destruct Hw as [Hw Hf]. apply andb_prop in Hw. destruct Hw as [Hn Hd].
  unfold lex_number. destruct fp as [f|].
  - apply andb_prop in Hf. destruct Hf as [Hfn Hfd]. cbn [app].
    rewrite (span_all is_digit ip (46 :: f ++ rest) Hd) by reflexivity. rewrite Hn.
    destruct f as [|d f']; [discriminate|]. cbn [app]. cbn in Hfd. apply andb_prop in Hfd. destruct Hfd as [Hd0 Hfd'].
    rewrite Z.eqb_refl, Hd0. cbn [andb].
    change (d :: f' ++ rest) with ((d :: f') ++ rest).
    rewrite (span_all is_digit (d :: f') rest).
    + reflexivity.
    + cbn. rewrite Hd0. exact Hfd'.
    + destruct rest as [|c r]; [reflexivity|]. cbn in Hs |- *. apply andb_prop in Hs. tauto.
  - cbn [app]. rewrite (span_all is_digit ip rest Hd).
    + rewrite Hn. destruct rest as [|c r]; [reflexivity|]. cbn in Hs. apply andb_prop in Hs. destruct Hs as [_ H46]. apply negb_true_iff in H46. rewrite H46. reflexivity.
    + destruct rest as [|c r]; [reflexivity|]. cbn in Hs |- *. apply andb_prop in Hs. tauto.
Qed.

Lemma idc_not c : idc c = true -> (c =? 34) = false /\ wsc c = false.
Proof.
  unfold idc, is_letter, is_digit, wsc. intros H.
  rewrite !orb_true_iff, !andb_true_iff, !Z.leb_le, !Z.eqb_eq in H.
  split; [apply Z.eqb_neq; lia|]. rewrite !orb_false_iff, !Z.eqb_neq. lia.
Qed.

Lemma letter_dispatch c : is_letter c = true ->
  (c =? 91) = false /\ (c =? 93) = false /\ (c =? 40) = false /\ (c =? 41) = false /\ (c =? 44) = false /\ (c =? 61) = false /\
  (c =? 45) = false /\ (c =? 35) = false /\ (c =? 64) = false /\ (c =? 36) = false /\ (c =? 34) = false /\ (c =? 126) = false /\ is_digit c = false /\ idc c = true.
Proof.
  intros H. assert (Hi: idc c = true) by (unfold idc; rewrite H; reflexivity).
  unfold is_letter, is_digit in *.
  rewrite !orb_true_iff, !andb_true_iff, !Z.leb_le in H.
  repeat split; try (apply Z.eqb_neq; lia); try exact Hi.
  apply andb_false_iff. rewrite !Z.leb_gt. lia.
Qed.

Lemma digit_dispatch c : is_digit c = true ->
  (c =? 91) = false /\ (c =? 93) = false /\ (c =? 40) = false /\ (c =? 41) = false /\ (c =? 44) = false /\ (c =? 61) = false /\
  (c =? 45) = false /\ (c =? 35) = false /\ (c =? 64) = false /\ (c =? 36) = false /\ (c =? 34) = false /\ (c =? 126) = false /\ (c =? 62) = false.
Proof.
  unfold is_digit. intros H. rewrite !andb_true_iff, !Z.leb_le in H. repeat split; apply Z.eqb_neq; lia.
Qed.

Lemma lex_regex_ok : forall s esc rest, regex_ok esc s = true -> lex_regex esc (s ++ 47 :: rest) = Some (s, rest).
Proof.
  induction s as [|c r IH]; intros esc rest H.
  - cbn in H. destruct esc; [discriminate|]. reflexivity.
  - cbn [app lex_regex]. cbn [regex_ok] in H. destruct esc.
    + rewrite (IH false rest H). reflexivity.
    + destruct (c =? 47); [discriminate|]. destruct (c =? 92); rewrite (IH _ rest H); reflexivity.
Qed.

(** one token, followed by anything that stops it, is read back as that token *)
Theorem lex1_ok t rest : wf_tok t = true -> stops t rest = true -> lex1 (render_tok t ++ rest) = Some (t, rest).
Proof.
  intros Hw Hs. destruct t as [| | | | | | | |s|s|s|s|s|s|neg ip fp|s|s]; try reflexivity.
  - (* = *) cbn. destruct rest as [|c r]; [reflexivity|]. cbn in Hs. apply negb_true_iff in Hs. rewrite Hs. reflexivity.
  - (* #name *) cbn [wf_tok] in Hw. apply andb_prop in Hw. destruct Hw as [Hn Ha]. cbn [render_tok stops app] in *.
    destruct s as [|d s']; [discriminate|]. unfold lex1. cbn [app].
    assert (Hd: idc d = true) by (cbn in Ha; apply andb_prop in Ha; tauto). destruct (idc_not d Hd) as [H34 _].
    cbn. rewrite H34. change (d :: s' ++ rest) with ((d :: s') ++ rest). apply lex_id_ok; assumption.
  - (* #"name" *) cbn [wf_tok] in Hw. apply andb_prop in Hw. destruct Hw as [Hn Ha]. cbn [render_tok app]. unfold lex1. cbn.
    rewrite <- app_assoc. cbn [app]. rewrite (span_all hqc s (34 :: rest) Ha) by reflexivity. cbn. rewrite Hn. reflexivity.
  - (* @ *) cbn [wf_tok] in Hw. apply andb_prop in Hw. destruct Hw as [Hn Ha]. cbn [render_tok stops app] in *. unfold lex1. cbn. apply lex_id_ok; assumption.
  - (* $ *) cbn [wf_tok] in Hw. apply andb_prop in Hw. destruct Hw as [Hn Ha]. cbn [render_tok stops app] in *. unfold lex1. cbn. apply lex_id_ok; assumption.
  - (* name *) cbn [wf_tok] in Hw. destruct s as [|c s']; [discriminate|]. apply andb_prop in Hw. destruct Hw as [Hc Ha].
    destruct (letter_dispatch c Hc) as (H1&H2&H3&H4&H5&H6&H7&H8&H9&H10&H11&H12&H13&H14).
    cbn [render_tok stops app] in *. unfold lex1. rewrite H1,H2,H3,H4,H5,H6,H7,H8,H9,H10,H11,H12,H13,Hc.
    change (c :: s' ++ rest) with ((c :: s') ++ rest). apply lex_id_ok; [reflexivity| cbn; rewrite H14; exact Ha | exact Hs].
  - (* "..." *) cbn [wf_tok] in Hw. cbn [render_tok app]. unfold lex1. cbn. rewrite <- app_assoc. cbn [app]. apply lex_delimited_ok. exact Hw.
  - (* number *) pose proof (lex_number_ok neg ip fp rest Hw Hs) as Hn.
    cbn [wf_tok] in Hw. apply andb_prop in Hw. destruct Hw as [Hw _]. apply andb_prop in Hw. destruct Hw as [Hne Hd].
    destruct ip as [|d ip']; [discriminate|]. assert (Hd0: is_digit d = true) by (cbn in Hd; apply andb_prop in Hd; tauto).
    destruct (digit_dispatch d Hd0) as (H1&H2&H3&H4&H5&H6&H7&H8&H9&H10&H11&H12&H13).
    cbn [render_tok]. rewrite <- !app_assoc. cbn [app] in Hn. destruct neg; cbn [app].
    + unfold lex1. cbn. rewrite H13. exact Hn.
    + unfold lex1. rewrite H1,H2,H3,H4,H5,H6,H7,H8,H9,H10,H11,H12,Hd0. exact Hn.
  - (* comment *) cbn [wf_tok] in Hw. cbn [render_tok app]. unfold lex1. cbn. rewrite <- app_assoc. cbn [app]. apply lex_delimited_ok. exact Hw.
  - (* regex *) cbn [wf_tok] in Hw. cbn [render_tok app]. unfold lex1. cbn. rewrite <- app_assoc. cbn [app]. rewrite (lex_regex_ok s false rest Hw). reflexivity.
Qed.

(** * streams of tokens with layout *)
Fixpoint render_stream (l : list (ustring * tok)) (trail : ustring) : ustring :=
  match l with [] => trail | (sep, t) :: r => sep ++ render_tok t ++ render_stream r trail end.

Definition open_left (t : tok) : bool := match t with TLB | TRB | TLP | TRP | TComma => true | _ => false end.
Definition closed (t : tok) : bool := match t with TAssign | THdr _ | TVar _ | TRef _ | TName _ | TNum _ _ _ => false | _ => true end.

(** separators are whitespace (possibly empty); an empty separator is allowed only where the two tokens
    cannot fuse: after a token that ends with its own delimiter, or before punctuation *)
Fixpoint stream_ok (l : list (ustring * tok)) : Prop :=
  match l with
  | [] => True
  | (sep, t) :: r =>
      all wsc sep = true /\ wf_tok t = true /\
      (match r with [] => True | (sep2, t2) :: _ => nonempty sep2 = true \/ open_left t2 = true \/ closed t = true end) /\
      stream_ok r
  end.

Lemma ws_stops c : wsc c = true -> (c =? 61) = false /\ idc c = false /\ is_digit c = false /\ (c =? 46) = false.
Proof.
  unfold wsc, idc, is_letter, is_digit. intros H. rewrite !orb_true_iff, !Z.eqb_eq in H.
  repeat split; try (apply Z.eqb_neq; lia).
  - rewrite !orb_false_iff, !andb_false_iff, !Z.leb_gt, !Z.eqb_neq. lia.
  - rewrite !andb_false_iff, !Z.leb_gt. lia.
Qed.

Lemma stops_ws t c r : wsc c = true -> stops t (c :: r) = true.
Proof. intros H. destruct (ws_stops c H) as (H1 & H2 & H3 & H4). destruct t; cbn; rewrite ?H1, ?H2, ?H3, ?H4; reflexivity. Qed.

Lemma stops_closed t rest : closed t = true -> stops t rest = true.
Proof. destruct t; cbn; intros H; try discriminate; reflexivity. Qed.

Lemma stops_open t t2 rest : open_left t2 = true -> stops t (render_tok t2 ++ rest) = true.
Proof. destruct t2; cbn; intros H; try discriminate; destruct t; reflexivity. Qed.

Lemma skip_ws_sep : forall sep x, all wsc sep = true -> skip_ws (sep ++ x) = skip_ws x.
Proof. induction sep as [|c s IH]; intros x H; [reflexivity|]. cbn in H |- *. apply andb_prop in H. destruct H as [Hc H]. rewrite Hc. apply IH. exact H. Qed.

Lemma skip_ws_all : forall s, all wsc s = true -> skip_ws s = [].
Proof. induction s as [|c s IH]; intros H; [reflexivity|]. cbn in H |- *. apply andb_prop in H. destruct H as [Hc H]. rewrite Hc. apply IH. exact H. Qed.

Lemma tok_first t : wf_tok t = true -> exists c r, render_tok t = c :: r /\ wsc c = false.
Proof.
  destruct t as [| | | | | | | |s|s|s|s|s|s|neg ip fp|s|s]; intros H; try (eexists; eexists; split; [reflexivity|reflexivity]).
  - cbn in H. destruct s as [|c s']; [discriminate|]. apply andb_prop in H. destruct H as [Hc _].
    destruct (letter_dispatch c Hc) as (_&_&_&_&_&_&_&_&_&_&_&_&_&Hi). exists c, s'. split; [reflexivity|]. exact (proj2 (idc_not c Hi)).
  - cbn in H. apply andb_prop in H. destruct H as [H _]. apply andb_prop in H. destruct H as [Hn Hd].
    destruct neg; [eexists; eexists; split; [reflexivity|reflexivity]|].
    destruct ip as [|d ip']; [discriminate|]. cbn in Hd. apply andb_prop in Hd. destruct Hd as [Hd _].
    exists d. eexists. split; [reflexivity|]. unfold is_digit in Hd. unfold wsc. rewrite andb_true_iff, !Z.leb_le in Hd.
    rewrite !orb_false_iff, !Z.eqb_neq. lia.
Qed.

Lemma stream_stops sep t r trail : stream_ok ((sep, t) :: r) -> all wsc trail = true -> stops t (render_stream r trail) = true.
Proof.
  intros (Hs & Hw & Hn & Hr) Ht. destruct r as [|[sep2 t2] r'].
  - cbn. destruct trail as [|c tr]; [destruct t; reflexivity|]. apply stops_ws. cbn in Ht. apply andb_prop in Ht. tauto.
  - cbn [render_stream]. destruct Hr as (Hs2 & _). destruct Hn as [Hn|[Hn|Hn]].
    + destruct sep2 as [|c s2]; [discriminate|]. cbn [app]. apply stops_ws. cbn in Hs2. apply andb_prop in Hs2. tauto.
    + destruct sep2 as [|c s2]; [cbn [app]; apply stops_open; exact Hn|]. cbn [app]. apply stops_ws. cbn in Hs2. apply andb_prop in Hs2. tauto.
    + apply stops_closed. exact Hn.
Qed.

(** the lexer reads back the token stream, whatever the layout *)
Theorem lex_stream : forall l trail fuel, stream_ok l -> all wsc trail = true -> (length l <= fuel)%nat ->
  lex fuel (render_stream l trail) = Some (map snd l).
Proof.
  induction l as [|[sep t] r IH]; intros trail fuel Hok Ht Hf.
  - cbn. destruct fuel; cbn; rewrite (skip_ws_all trail Ht); reflexivity.
  - destruct fuel as [|f]; [cbn in Hf; lia|].
    pose proof (stream_stops sep t r trail Hok Ht) as Hstop.
    destruct Hok as (Hs & Hw & Hn & Hr).
    cbn [render_stream lex]. rewrite (skip_ws_sep sep _ Hs).
    destruct (tok_first t Hw) as (c & tl & Hc & Hcw). rewrite Hc. cbn [app skip_ws]. rewrite Hcw.
    change (c :: tl ++ render_stream r trail) with ((c :: tl) ++ render_stream r trail). rewrite <- Hc.
    rewrite (lex1_ok t _ Hw Hstop). rewrite (IH trail f Hr Ht) by (cbn in Hf; lia). reflexivity.
Qed.

Lemma stream_length : forall l trail, stream_ok l -> (length l <= length (render_stream l trail))%nat.
Proof.
  induction l as [|[sep t] r IH]; intros trail H; [cbn; lia|].
  destruct H as (_ & Hw & _ & Hr). cbn [render_stream length]. rewrite !app_length.
  destruct (tok_first t Hw) as (c & tl & Hc & _). rewrite Hc. cbn [length]. specialize (IH trail Hr). lia.
Qed.
