(** Matcher.matches as generated from csvpath/matching/matcher.py (Match/AdjSrc.v) equals the hand-written adjudication loop
    (Match/Adjudicate.v [adj] / [matches], clean model), for EVERY component evaluator, every stop / skip / clear-errors behaviour,
    both logic modes, every list of expressions and every state — with every expression's cached answer unset, as Matcher.reset leaves
    them at the start of a line.  Re-checked against the regenerated AdjSrc.v on every run of C01. *)
From Coq Require Import ZArith List Bool.
From V Require Import Scan.PySem Run.RunSem Match.Adjudicate Match.AdjSrc.
Import ListNotations.
Open Scope Z_scope.

Section Eq.
  Variable S : Type.
  Variable comp : Type.
  Variable stp : S -> bool.
  Variable skp : S -> bool.
  Variable clear_skip : S -> S.
  Variable eval : comp -> S -> S * bool.
  Variable clear_errors : S -> S.
  Variable do_lasts : S -> S.
  Variable AND : bool.

  Definition fresh (cs : list comp) : list (comp * pyv) := map (fun c => (c, PNone)) cs.
  Definition res (t : S * bool * list comp) : option (S * pyv) := let '(s, b, _) := t in Some (s, PBool b).

  Theorem matches_loop_src_eq : forall cs s ret failed,
    matches_loop_src S comp stp skp clear_skip eval clear_errors AND (fresh cs) s ret (PBool failed)
    = res (adj S comp stp skp clear_skip eval clear_errors false AND cs s failed).
  Proof.
    induction cs as [|c cs IH]; intros s ret failed.
    - cbn. unfold ifo. cbn. destruct (skp s); reflexivity.
    - cbn [fresh map matches_loop_src adj]. unfold ifo at 1. cbn [p_and p_truth].
      destruct (stp s); [reflexivity|]. unfold ifo at 1. cbn [p_is_true p_truth].
      destruct (skp s); [reflexivity|]. unfold ifo at 1 2. cbn [p_is_true p_is_false p_truth].
      destruct (eval c s) as [s1 v]. fold (fresh cs).
      destruct v, AND; cbn [negb ifo p_truth p_is_true p_is_false upd]; unfold ifo; cbn [p_truth p_is_true p_is_false];
        rewrite IH; unfold upd, res; destruct (adj _ _ _ _ _ _ _ _ _ _ _ _) as [[s2 b] ev]; reflexivity.
  Qed.

  Theorem matches_src_eq : forall cs s,
    matches_src S comp stp skp clear_skip eval clear_errors do_lasts AND false (fresh cs) s
    = res (Adjudicate.matches S comp stp skp clear_skip eval clear_errors false AND cs s).
  Proof.
    intros cs s. unfold matches_src, Adjudicate.matches.
    assert (E : p_if (PBool AND) (fun _ : unit => PBool false) (fun _ : unit => PBool true) = PBool (negb AND)) by (destruct AND; reflexivity).
    rewrite E. apply matches_loop_src_eq.
  Qed.

  (** on the blank final record: the last() components are run, the errors handled, the answer is True *)
  Theorem matches_src_lastblank : forall xs s,
    matches_src S comp stp skp clear_skip eval clear_errors do_lasts AND true xs s = Some (clear_errors (do_lasts s), PBool true).
  Proof. reflexivity. Qed.
End Eq.
