(** push_distinct(): a stack that only push_distinct() writes never holds two equal values — after any run of any csvpath,
    any file, any scan, any entry point (an invariant of every component evaluation, lifted by Match/AdjProofs.adj_inv and
    Run/RunInv.run_invariant). *)
From Coq Require Import ZArith List Bool Lia.
From V Require Import Csv.CsvModel Data.DataModel Scan.ScanModel Run.RunLoop Run.RunInv
  Match.Adjudicate Match.AdjProofs Match.Core Match.CoreProofs Match.AggProofs.
Import ListNotations.
Open Scope Z_scope.

Fixpoint distinct_b (st : list value) : bool :=
  match st with [] => true | v :: r => negb (existsb (val_eqb v) r) && distinct_b r end.

Lemma val_eqb_sym a b : val_eqb a b = val_eqb b a.
Proof.
  destruct a, b; cbn; try reflexivity; try apply Z.eqb_sym.
  destruct (ustr_eqb s s0) eqn:E1; destruct (ustr_eqb s0 s) eqn:E2; try reflexivity.
  - apply ustr_eqb_eq in E1. subst. rewrite ustr_eqb_refl in E2. discriminate.
  - apply ustr_eqb_eq in E2. subst. rewrite ustr_eqb_refl in E1. discriminate.
Qed.

Lemma distinct_snoc st v : distinct_b st = true -> existsb (val_eqb v) st = false -> distinct_b (st ++ [v]) = true.
Proof.
  induction st as [|x r IH]; intros Hd Hn; [reflexivity|].
  cbn [distinct_b existsb app] in *. apply andb_prop in Hd. destruct Hd as [Hx Hr]. apply orb_false_elim in Hn. destruct Hn as [Hvx Hvr].
  rewrite existsb_app. cbn [existsb]. rewrite orb_false_r. apply negb_true_iff in Hx. rewrite Hx. rewrite (val_eqb_sym x v), Hvx. cbn.
  apply IH; assumption.
Qed.

(** the stack [k] belongs to push_distinct(): no push(), pop() or other writer names it *)
Definition pushd_owns (k : Z) (c : comp) : Prop :=
  match c with
  | CAct (PushN k' _) | CAct (PushS k' _) | CAct (Pop _ k') | CWhen _ (PushN k' _) | CWhen _ (PushS k' _) | CWhen _ (Pop _ k') => k' <> k
  | _ => True
  end.

Definition stack_distinct (k : Z) (m : mx) : Prop :=
  match lookup k (stacks m) with Some st => distinct_b st = true | None => True end.

Section PushDistinct.
  Variable q : quirks.
  Variable blanks : list bool.
  Variable AND : bool.

  (** push_distinct(): one evaluation *)
  Theorem push_distinct_step s l k e :
    let st := match lookup k (stacks (x mx s)) with Some st => st | None => [] end in
    let v := nvalue blanks s l e in
    let s' := do_action q blanks AND s l (PushD k e) in
    lookup k (stacks (x mx s')) = Some (if existsb (val_eqb v) st then st else st ++ [v]) /\
    (forall k', k <> k' -> lookup k' (stacks (x mx s')) = lookup k' (stacks (x mx s))) /\
    vars (x mx s') = vars (x mx s) /\ dicts (x mx s') = dicts (x mx s).
  Proof.
    cbn zeta. cbn [do_action x with_mx stacks vars dicts]. repeat split; [apply lookup_update_same|].
    intros k' Hk. apply lookup_update_other. exact Hk.
  Qed.

  Lemma do_agg_stacks s l g : stacks (x mx (fst (do_agg q blanks AND s l g))) = stacks (x mx s).
  Proof.
    destruct g; cbn [do_agg]; try reflexivity.
    - destruct (dget (x mx s) nm (hdr_key l i)) as [[?|?|?|]|]; reflexivity.
    - destruct (none_like _); reflexivity.
    - destruct (is_blank_text (tally_text l i)); reflexivity.
    - destruct (Assign.do_assignment _ _ _ _) as [[[|] ?]|]; cbn [fst x with_mx dset stacks]; apply AggProofs.ensure_key_stacks.
    - destruct (Assign.do_assignment _ _ _ _) as [[[|] ?]|]; reflexivity.
  Qed.

  Lemma do_action_keeps_distinct s l a k : (match a with PushN k' _ | PushS k' _ | Pop _ k' => k' <> k | _ => True end) ->
    stack_distinct k (x mx s) -> stack_distinct k (x mx (do_action q blanks AND s l a)).
  Proof.
    intros Ho H. unfold stack_distinct in *. destruct a as [w e|w e|k' e|k' e|w k'|k' e|g]; cbn [do_action].
    - exact H.
    - exact H.
    - cbn [x with_mx stacks]. rewrite (lookup_update_other k' k _ Ho). exact H.
    - cbn [x with_mx stacks]. rewrite (lookup_update_other k' k _ Ho). exact H.
    - destruct (rev _); cbn [x with_mx stacks]; rewrite (lookup_update_other k' k _ Ho); exact H.
    - cbn [x with_mx stacks]. destruct (Z.eq_dec k' k) as [->|Hn].
      + rewrite lookup_update_same. destruct (lookup k (stacks (x mx s))) as [st|].
        * destruct (existsb (val_eqb (nvalue blanks s l e)) st) eqn:E; [exact H|apply distinct_snoc; assumption].
        * reflexivity.
      + rewrite (lookup_update_other k' k _ Hn). exact H.
    - rewrite do_agg_stacks. exact H.
  Qed.

  Lemma eval_keeps_distinct c s l k : pushd_owns k c -> stack_distinct k (x mx s) -> stack_distinct k (x mx (fst (eval q blanks AND c s l))).
  Proof.
    intros Ho H. destruct c as [b|a|b a|g|na0 i0 k0 r0]; cbn [eval].
    - exact H.
    - cbn [fst]. apply do_action_keeps_distinct; [destruct a; try exact I; exact Ho|exact H].
    - destruct (beval q blanks s l b); [|exact H]. cbn [fst]. apply do_action_keeps_distinct; [destruct a; try exact I; exact Ho|exact H].
    - unfold stack_distinct in *. rewrite do_agg_stacks. exact H.
    - exact H.
  Qed.

  Lemma core_m_keeps_distinct cs e s l k : Forall (pushd_owns k) cs ->
    stack_distinct k (x mx s) -> stack_distinct k (x mx (fst (core_m q blanks AND cs e s l))).
  Proof.
    intros Ho H. unfold core_m. cbv zeta.
    assert (H': stack_distinct k (x mx (ensure cs s))) by (unfold ensure; destruct (frozen mx s); exact H).
    destruct (oeqb e (pln mx (ensure cs s)) && is_nil l); [exact H'|]. unfold matches.
    pose proof (adj_inv cst comp (stopped mx) (fun _ => false) (fun s0 => s0) (fun c s0 => eval q blanks AND c s0 l) (fun s0 => s0)
                  (fun s0 => stack_distinct k (x mx s0)) (fun _ h => h) (fun _ h => h) false AND cs (ensure cs s) (negb AND)) as K.
    destruct (adj cst comp (stopped mx) (fun _ => false) (fun s0 => s0) (fun c s0 => eval q blanks AND c s0 l) (fun s0 => s0) false AND cs (ensure cs s) (negb AND)) as [[s2 b] ev].
    cbn [fst] in *. apply K; [|exact H']. intros c Hin s0 Hs0. rewrite Forall_forall in Ho. apply eval_keeps_distinct; [apply Ho; exact Hin|exact Hs0].
  Qed.
End PushDistinct.

(** * run level: whatever the csvpath, the file, the scan, the entry point and the budget *)
Theorem pushed_distinct_stays_distinct q AND cs (e : option Z) blanks (c : cfg) s0 bud (recs : list (line ustring)) k :
  Forall (pushd_owns k) cs -> stack_distinct k (x mx s0) ->
  stack_distinct k (x mx (st ustring mx (run_from ustring mx (core_m q blanks AND cs e) c s0 bud recs))).
Proof.
  intros Ho H.
  apply (run_invariant ustring mx (core_m q blanks AND cs e) (fun m => stack_distinct k m)); [|exact H].
  intros s l Hs. apply core_m_keeps_distinct; assumption.
Qed.
