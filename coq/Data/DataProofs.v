(** Facts about the data path: headers survive the file, name and index address one cell,
    short rows read as absent. *)
From Coq Require Import ZArith List Bool Lia.
From V Require Import Csv.CsvModel Csv.CsvProofs Data.DataModel Scan.ScanModel Scan.ScanSpec Scan.ScanProofs
  Run.RunLoop Run.RunProofs Run.RunFacts Run.RunYes.
Import ListNotations.
Open Scope Z_scope.

Lemma headers_roundtrip d rows : dialect_ok d -> no_cr rows ->
  headers_of (read_file d (csv_write d rows)) = map clean_header (raw_headers rows).
Proof. intros Hd Hn. unfold headers_of. rewrite csv_roundtrip by assumption. reflexivity. Qed.

Lemma clean_header_no_delims h c : In c (clean_header h) -> delim_like c = false.
Proof. unfold clean_header. intros H. apply filter_In in H. destruct H as [_ H]. destruct (delim_like c); [discriminate|reflexivity]. Qed.

Lemma lstrip_id s : match s with c :: _ => is_space c = false | [] => True end -> lstrip s = s.
Proof. destruct s as [|c r]; [reflexivity|]. cbn. intros ->. reflexivity. Qed.

Lemma filter_id {A} (p : A -> bool) l : Forall (fun x => p x = true) l -> filter p l = l.
Proof. induction 1 as [|x l Hx _ IH]; [reflexivity|]. cbn. rewrite Hx, IH. reflexivity. Qed.

(** a header that is already trimmed and has none of the listed characters is kept as it is *)
Lemma clean_header_id h :
  match h with c :: _ => is_space c = false | [] => True end ->
  match rev h with c :: _ => is_space c = false | [] => True end ->
  Forall (fun c => delim_like c = false) h -> clean_header h = h.
Proof.
  intros H1 H2 H3. unfold clean_header, strip. rewrite (lstrip_id h H1), (lstrip_id (rev h) H2), rev_involutive.
  apply filter_id. eapply Forall_impl; [|exact H3]. cbn. intros a ->. reflexivity.
Qed.

Lemma index_from_sound n : forall hs i k, index_from i n hs = Some k ->
  (i <= k)%nat /\ exists h, nth_error hs (k - i) = Some h /\ ustr_eqb h n = true /\
  forall j h', (j < k - i)%nat -> nth_error hs j = Some h' -> ustr_eqb h' n = false.
Proof.
  induction hs as [|h hs IH]; intros i k H; [discriminate|].
  cbn in H. destruct (ustr_eqb h n) eqn:E.
  - injection H as <-. split; [lia|]. exists h. rewrite Nat.sub_diag. cbn. repeat split; auto. intros j h' Hj. lia.
  - destruct (IH _ _ H) as (Hle & h0 & Hn & He & Hf). split; [lia|]. exists h0.
    replace (k - i)%nat with (S (k - S i)) by lia. cbn. repeat split; auto.
    intros [|j] h' Hj Hn'; cbn in Hn'.
    + injection Hn' as <-. exact E.
    + apply (Hf j h'); [lia|exact Hn'].
Qed.

(** #name and #index address the same cell *)
Lemma name_is_index hs n i line : header_index n hs = Some i -> value_by_name hs n line = value_by_index i line.
Proof. unfold value_by_name. intros ->. reflexivity. Qed.

Lemma header_index_first hs n i : header_index n hs = Some i ->
  exists h, nth_error hs i = Some h /\ ustr_eqb h n = true /\
  forall j h', (j < i)%nat -> nth_error hs j = Some h' -> ustr_eqb h' n = false.
Proof.
  intros H. destruct (index_from_sound n hs 0 i H) as (_ & h & H1 & H2 & H3).
  rewrite Nat.sub_0_r in *. exists h. auto.
Qed.

(** a header missing from a short row reads as absent *)
Lemma short_row_absent i line : (length line <= i)%nat -> value_by_index i line = None.
Proof. intros H. unfold value_by_index. apply nth_error_None in H. rewrite H. reflexivity. Qed.

Lemma present_cell i line cell : nth_error line i = Some cell -> value_by_index i line = Some (strip cell).
Proof. unfold value_by_index. intros ->. reflexivity. Qed.

Lemma unknown_name_absent hs n line : header_index n hs = None -> value_by_name hs n line = None.
Proof. unfold value_by_name. intros ->. reflexivity. Qed.

Lemma only_collect_narrows line : limit_collection [] line = Some line.
Proof. reflexivity. Qed.

(** * delivered lines: csv round trip composed with the run loop *)
Section Lines.
  Variable X : Type.
  Notation C := ustring.

  Definition all_cfg (e : option Z) (collecting unm : bool) : cfg :=
    mkCfg (mkSc [] None None true) false e false collecting unm true.

  Lemma parse_all : parse false (ast_of All) = Some (mkSc [] None None true).
  Proof. reflexivity. Qed.

  Lemma want_all (nl : Z * line C) : want C All nl = nonblank_row (snd nl).
  Proof. unfold want, nonblank, RunLoop.is_nil, nonblank_row. cbn. destruct (snd nl); reflexivity. Qed.

  (** [$file[*][yes()]] returns every non-blank record, cell for cell, in file order *)
  Theorem yes_all_returns_nonblank (recs : list (line C)) (x0 : X) coll unm :
    returned C X (run_from C X (yes_m C X) (all_cfg (end_of C recs) coll unm) (rs0 X x0) None recs)
      = filter nonblank_row recs.
  Proof.
    destruct recs as [|r0 recs0] eqn:Er.
    - reflexivity.
    - rewrite <- Er.
      assert (He: end_of C recs = Some (Z.of_nat (length recs) - 1)) by (rewrite Er; reflexivity).
      rewrite He.
      rewrite (yes_returns_denoted C X All (all_cfg (Some (Z.of_nat (length recs) - 1)) coll unm) (Z.of_nat (length recs) - 1));
        try reflexivity; try exact I; try exact He.
      etransitivity; [|exact (filter_number_snd C nonblank_row recs 0)].
      f_equal. apply filter_ext. intros nl. apply want_all.
  Qed.

  Theorem lines_delivered d rows (x0 : X) coll unm : dialect_ok d -> no_cr rows ->
    let recs := read_file d (csv_write d rows) in
    returned C X (run_from C X (yes_m C X) (all_cfg (end_of C recs) coll unm) (rs0 X x0) None recs)
      = filter nonblank_row rows.
  Proof.
    intros Hd Hn. cbn zeta. rewrite yes_all_returns_nonblank. rewrite csv_roundtrip by assumption. reflexivity.
  Qed.

  (** for EVERY matcher, scan part and mode: whatever is returned is a sub-sequence of the
      records written, each with exactly its cells (nothing is rewritten by the loop) *)
  Theorem any_matcher_delivers_records (m : rs X -> line C -> rs X * bool) d rows c s0 : dialect_ok d -> no_cr rows ->
    exists flags, returned C X (run_from C X m c s0 None (read_file d (csv_write d rows))) = sel C flags rows.
  Proof.
    intros Hd Hn. rewrite csv_roundtrip by assumption. unfold run_from.
    destruct (will_run c).
    - pose proof (fold_partition C X m c rows 0 (mkLs C X s0 [] [] [] false false None)) as H.
      cbn zeta in H. destruct H as (t' & _ & Hlen & Hret & _). cbn [returned app] in Hret.
      exists (map ev_returned t').
      assert (Hs: forall fl (rs : list (line C)), (length fl <= length rs)%nat -> sel C fl (firstn (length fl) rs) = sel C fl rs).
      { induction fl as [|f fl IH]; intros [|r rs] Hl; cbn in *; try reflexivity; try lia.
        rewrite IH by lia. reflexivity. }
      unfold finish. destruct (halted C X _); cbn [returned]; rewrite Hret;
        rewrite <- (map_length ev_returned t') at 1; apply Hs; rewrite map_length; exact Hlen.
    - exists []. reflexivity.
  Qed.
End Lines.
