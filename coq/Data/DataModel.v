(** Model of the data path of csvpath around the csv reader:
    LineCounter.get_lines_and_headers / clean_headers (util/line_counter.py),
    CsvPath.header_index (csvpath.py), Header.to_value (matching/productions/header.py),
    CsvPath.limit_collection (csvpath.py).  Python str = list of code points.  No proofs here. *)
From Coq Require Import ZArith List Bool.
From V Require Import Csv.CsvModel.
Import ListNotations.
Open Scope Z_scope.

(** str.isspace() for one code point: Unicode White_Space + the four separators FS GS RS US *)
Definition is_space (c : Z) : bool :=
  ((9 <=? c) && (c <=? 13)) || ((28 <=? c) && (c <=? 32)) || (c =? 133) || (c =? 160) || (c =? 5760)
  || ((8192 <=? c) && (c <=? 8202)) || (c =? 8232) || (c =? 8233) || (c =? 8239) || (c =? 8287) || (c =? 12288).

Fixpoint lstrip (s : ustring) : ustring :=
  match s with c :: r => if is_space c then lstrip r else s | [] => [] end.
Definition strip (s : ustring) : ustring := rev (lstrip (rev (lstrip s))).

(** LineCounter.clean_headers: strip, then drop every ; , | TAB ` *)
Definition delim_like (c : Z) : bool := (c =? 59) || (c =? 44) || (c =? 124) || (c =? 9) || (c =? 96).
Definition clean_header (h : ustring) : ustring := filter (fun c => negb (delim_like c)) (strip h).

Definition nonblank_row (r : list ustring) : bool := match r with [] => false | _ => true end.

(** the headers are the first non-blank record, whatever the scan part says *)
Definition raw_headers (recs : list (list ustring)) : list ustring :=
  match find nonblank_row recs with Some r => r | None => [] end.
Definition headers_of (recs : list (list ustring)) : list ustring := map clean_header (raw_headers recs).

Fixpoint ustr_eqb (a b : ustring) : bool :=
  match a, b with
  | [], [] => true
  | x :: a', y :: b' => (x =? y) && ustr_eqb a' b'
  | _, _ => false
  end.

(** CsvPath.header_index: first position whose name equals [n] *)
Fixpoint index_from (i : nat) (n : ustring) (hs : list ustring) : option nat :=
  match hs with
  | [] => None
  | h :: r => if ustr_eqb h n then Some i else index_from (S i) n r
  end.
Definition header_index (n : ustring) (hs : list ustring) : option nat := index_from 0 n hs.

(** Header.to_value: the cell, stripped; absent (None) when the row is too short or the name
    is unknown.  No error is raised in either case. *)
Definition value_by_index (i : nat) (line : list ustring) : option ustring := option_map strip (nth_error line i).
Definition value_by_name (hs : list ustring) (n : ustring) (line : list ustring) : option ustring :=
  match header_index n hs with Some i => value_by_index i line | None => None end.

(** CsvPath.limit_collection: only collect() (a non-empty limit list) narrows a line *)
Fixpoint pick (ks : list nat) (line : list ustring) : option (list ustring) :=
  match ks with
  | [] => Some []
  | k :: r => match nth_error line k, pick r line with Some c, Some l => Some (c :: l) | _, _ => None end
  end.
Definition limit_collection (ks : list nat) (line : list ustring) : option (list ustring) :=
  match ks with [] => Some line | _ => pick ks line end.
