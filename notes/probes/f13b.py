import os, sys, io, contextlib, itertools, csv
sys.path.insert(0, sys.argv[1]); os.environ["CSVPATH_CONFIG_PATH"]="config.ini"
from csvpath import CsvPath
def run(p):
    c=CsvPath(print_default=False)
    with contextlib.redirect_stdout(io.StringIO()):
        try: lines=c.collect(p)
        except Exception as e: return ("EXC", type(e).__name__, str(e)[:80])
    v=c.variables
    return ([int(l[0]) for l in lines], list(v.get("a",[])), list(v.get("b",[])), list(v.get("L",[])), c.scan_count, c.match_count)
SCANS={"*":lambda N:set(range(N)), "1*":lambda N:set(range(1,N)), "1-3":lambda N:{1,2,3}, "2":lambda N:{2}, "0+2+4":lambda N:{0,2,4}}
def expect(N, blanks, scan, pos, ctrl, k):
    S=SCANS[scan](N); lastden=max(S) if scan not in ("*","1*") else N-1
    a=[];b=[];L=[];ret=[];adv=0;sc=0;mc=0;stopped=False
    comps=["a","b"]; comps.insert(pos,"c")
    for l in range(N):
        if l in blanks:
            if False:
                L.append(l)   # push inside last()-> runs unfrozen
            continue
        if l not in S: continue
        sc+=1
        if adv>0:
            adv-=1; matched=False
        else:
            matched=True; skipped=False
            for i,cn in enumerate(comps):
                if stopped or skipped: matched=False; break
                if cn=="a": a.append(l)
                elif cn=="b": b.append(l)
                elif cn=="c":
                    if l==k:
                        if ctrl=="stop": stopped=True
                        elif ctrl=="skip": skipped=True
                        elif ctrl.startswith("advance"): adv=int(ctrl[8])
                elif cn=="last":
                    if l==N-1 or l==lastden: L.append(l)
            else:
                if skipped: matched=False
                # stop as last evaluated component: loop finished normally -> line matches
        if matched: mc+=1; ret.append(l)
        if l==lastden or stopped: break
    return (ret,a,b,L,sc,mc)
bad=[];n=0
for N in (3,5,6):
  for blanks in [(),(1,),(N-1,),(2,N-1),(0,)]:
    rows=[[str(i),"x"] if i not in blanks else [] for i in range(N)]
    with open("f13.csv","w",newline="") as f: csv.writer(f).writerows(rows)
    for scan in SCANS:
      for pos in (0,1,2):
        for ctrl in ("stop","skip","advance(1)","advance(2)"):
          for k in range(N):
            comps=['push("a", line_number())','push("b", line_number())']; comps.insert(pos, f'eq.nocontrib(line_number(),{k}) -> {ctrl}()' if "(" not in ctrl else f'eq.nocontrib(line_number(),{k}) -> {ctrl}')
            p=f'$f13.csv[{scan}][ '+" ".join(comps)+' ]'
            got=run(p); exp=expect(N,blanks,scan,pos,ctrl,k); n+=1
            if got!=exp: bad.append((N,blanks,scan,pos,ctrl,k,got,exp))
print(n,len(bad))
from collections import Counter
print(Counter((b[2],b[4]) for b in bad).most_common(12))
for b in bad[:10]: print(b)
