import os, sys, io, contextlib, random, json, shutil, glob, hashlib, datetime as dtmod
sys.path.insert(0, sys.argv[1])
os.environ["CSVPATH_CONFIG_PATH"]="config.ini"
import csvpath.csvpaths as CP
from csvpath import CsvPaths
class Clock:
    now_=dtmod.datetime(2026,3,1,12,59,58,tzinfo=dtmod.timezone.utc)
class FakeDT(dtmod.datetime):
    @classmethod
    def now(cls, tz=None): return Clock.now_
CP.datetime=FakeDT
def snap():
    out={}
    for f in glob.glob("archive/**", recursive=True):
        if os.path.isfile(f) and not f=="archive/manifest.json":
            with open(f,"rb") as fh: out[f]=hashlib.sha256(fh.read()).hexdigest()
    return out
for d in ("archive","inputs","cache"): shutil.rmtree(d, ignore_errors=True)
open("t2.csv","w").write("a,b\n1,2\n3,4\n5,6\n")
cs=CsvPaths(print_default=False)
cs.file_manager.add_named_file(name="f", path="t2.csv")
cs.paths_manager.add_named_paths(name="g", paths=['~id: m~ $[*][ gt(line_number(), 0) ]'])
cs.paths_manager.add_named_paths(name="h", paths=['~id: m validation-mode: raise~ $[*][ eq(line_number(), 2) -> add("x",1) ]'])
hist=[("g",0),("g",0),("h",1),("g",1),("g", 3600*11),("g",1)]
prev=snap(); dirs=[]
for (name,dt) in hist:
    Clock.now_=Clock.now_+dtmod.timedelta(seconds=dt)
    with contextlib.redirect_stdout(io.StringIO()):
        try: cs.collect_paths(pathsname=name, filename="f"); exc=None
        except Exception as e: exc=type(e).__name__
    cur=snap()
    changed=[f for f in prev if cur.get(f)!=prev[f]]
    newdirs=sorted(set(os.path.dirname(os.path.dirname(f)) if f.count("/")>3 else os.path.dirname(f) for f in cur if f not in prev))
    print(name, Clock.now_.strftime("%H:%M:%S"), "exc",exc, "changed-old-files", changed, "new", newdirs)
    prev=cur
print(cs.file_manager.get_named_file("$g.results.2026-03:last.m"), cs.file_manager.get_named_file("$g.results.2026-03:first.m"))
