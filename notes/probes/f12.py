import os, sys, io, contextlib, random, json, shutil
sys.path.insert(0, sys.argv[1])
os.environ["CSVPATH_CONFIG_PATH"]="config.ini"
from csvpath import CsvPaths
rnd=random.Random(int(sys.argv[2]))
def ws(): return rnd.choice([""," ","\n","\n\n  ","\t"])
def path(i, ident):
    pre = rnd.choice([f"~ {rnd.choice(['id','Id','ID','name','Name','NAME'])}: {ident} ~", f"~ description: some text here. {rnd.choice(['id','name'])}: {ident} other: y : free text ~"]) if ident else rnd.choice(["", "~ just a comment ~"])
    body="$"+rnd.choice(["","file.csv"])+"["+rnd.choice(["*","1*","0-3"])+"]"+ws()+"["+ws()+rnd.choice(["yes()", "~ inner comment ~ no()", '@x = #a\n   print("hi there: $.variables.x ")', '#a == "b" -> stop()'])+ws()+"]"
    post=rnd.choice(["",""," ~ trailing: t ~"])
    return ws()+pre+ws()+body+post+ws()
bad=[];n=0
for it in range(int(sys.argv[3])):
    for d in ("archive","inputs","cache"): shutil.rmtree(d, ignore_errors=True)
    cs=CsvPaths(print_default=False); pm=cs.paths_manager
    k=rnd.randrange(1,6)
    ids=[rnd.choice([None, f"p{i}"]) for i in range(k)]
    ps=[path(i,ids[i]) for i in range(k)]
    pm.add_named_paths(name="g", paths=ps)
    got=pm.get_named_paths("g")
    n+=1
    if [g.strip() for g in got]!=[p.strip() for p in ps]: bad.append(("RT",ps,got)); continue
    for i,idn in enumerate(ids):
        if idn is None: continue
        try:
            one=pm.get_named_paths(f"g#{idn}"); one2=pm.get_named_paths(f"$g.csvpaths.{idn}")
            fr=pm.get_named_paths(f"$g.csvpaths.{idn}:from"); to=pm.get_named_paths(f"$g.csvpaths.{idn}:to")
        except Exception as e: bad.append(("EXC",idn,ps,str(e)[:80])); break
        st=lambda l:[x.strip() for x in l]
        if st(one)!=[ps[i].strip()] or st(one2)!=[ps[i].strip()] or st(fr)!=st(ps[i:]) or st(to)!=st(ps[:i+1]): bad.append(("SEL",idn,i,ps,one,fr,to)); break
    m1=len(json.load(open("inputs/named_paths/g/manifest.json")))
    pm.add_named_paths(name="g", paths=ps)
    m2=len(json.load(open("inputs/named_paths/g/manifest.json")))
    if m2!=m1: bad.append(("MAN",m1,m2))
print(n,len(bad))
for b in bad[:5]: print(repr(b)[:700])
