import os, sys, io, contextlib, itertools
sys.path.insert(0, sys.argv[1])
os.environ["CSVPATH_CONFIG_PATH"]="config.ini"
from csvpath import CsvPath
from csvpath.scanning.scanner import Scanner
class FakeLM: physical_end_line_number=None
class FakeCP:
    def __init__(s,e): s.line_monitor=FakeLM(); s.line_monitor.physical_end_line_number=e; s.logger=None
import logging
def parse(scan, end):
    cp=FakeCP(end); cp.logger=logging.getLogger("x")
    with contextlib.redirect_stdout(io.StringIO()):
        sc=Scanner(csvpath=cp); sc.parse(f"$f[{scan}]")
    return sc
def offered(sc, N, blanks=()):
    # emulate _consider_line scanning loop
    out=[]
    for l in range(N):
        if l in blanks: 
            continue
        if sc.includes(l):
            out.append(l)
            if sc.is_last(l): break
    return out
M=6
items=[]
for a in range(M+1): items.append((a,a,str(a)))
for a in range(M+1):
    for b in range(a+1,M+1): items.append((a,b,f"{a}-{b}"))
bad=0; tot=0
def wf(seq):
    last=-1
    for (a,b,_) in seq:
        if a<=last: return False
        last=b
    return True
N=5
shapes=[]
shapes.append(("*", set(range(0,100))))
for a in range(M+1): shapes.append((f"{a}*", set(range(a,100))))
for a in range(M+1):
    for b in range(M+1):
        if a!=b: shapes.append((f"{a}-{b}", set(range(min(a,b),max(a,b)+1))))
for k in (1,2,3):
    for seq in itertools.product(items, repeat=k):
        if wf(seq):
            den=set()
            for (a,b,_) in seq: den|=set(range(a,b+1))
            shapes.append(("+".join(t for (_,_,t) in seq), den))
print(len(shapes))
fails=[]
for (txt,den) in shapes:
    sc=parse(txt, N-1)
    for blanks in [(), (0,), (N-1,), (2,3)]:
        got=offered(sc,N,blanks)
        exp=[l for l in range(N) if l in den and l not in blanks]
        tot+=1
        if got!=exp: fails.append((txt,blanks,got,exp))
print(tot, len(fails)); print(fails[:25])
