import os, sys, io, contextlib, itertools
sys.path.insert(0, sys.argv[1])
os.environ["CSVPATH_CONFIG_PATH"]="config.ini"
from csvpath import CsvPath
from csvpath.matching.util.expression_utility import ExpressionUtility as EU
with contextlib.redirect_stdout(io.StringIO()):
    c=CsvPath(print_default=False)
    c.parse("$t.csv[*][@x = 1]")
    m=c.parse("$t.csv[*][@x = 1]", disposably=True)
eq=m.expressions[0][0].children[0]
Q=["onmatch","latch","onchange","increase","decrease","notnone","asbool","nocontrib"]
def impl(qs, lm, cur, y, AND=True):
    m._AND=AND
    c.variables.clear()
    if cur is not None: c.variables["x"]=cur
    args={q:(q in qs) for q in Q}
    args.update(dict(noqualifiers=None,count=False,new_value=y,name="x",tracking=None,current_value=cur,line_matches=lm))
    try:
        ret=eq._do_assignment_new_impl(name="x", tracking=None, args=args)
    except Exception as e:
        return ("EXC", type(e).__name__)
    wrote = ("x" in c.variables and (cur is None or c.variables["x"] is not cur or True)) 
    # detect write: value now equals y and either differs from cur or set_variable called -> track via wrapper
    return (ret, c.variables.get("x"))
def spec(qs, lm, cur, y):
    pos, neg = True, False
    def blocked_inc():
        return "increase" in qs and ((not cur and not y) or not y or (cur is not None and cur >= y))
    def blocked_dec():
        return "decrease" in qs and ((not cur and not y) or not y or (cur is not None and cur <= y))
    if "onmatch" in qs and not lm:
        w, v = False, neg
    else:
        if "latch" in qs or "onchange" in qs:
            if cur != y:
                if cur is None or "latch" not in qs:
                    # set_variable_if
                    if "notnone" in qs and y is None: w,v=False,neg
                    elif blocked_inc() or blocked_dec(): w,v=False,neg
                    else: w,v=True,pos
                else: w,v=False,pos
            elif "onchange" in qs: w,v=False,neg
            else: w,v=False,pos
        else:
            if "notnone" in qs and y is None: w,v=False,neg
            elif blocked_inc() or blocked_dec(): w,v=False,neg
            else: w,v=True,pos
    if "asbool" in qs and v==pos: v=EU.asbool(y)
    if "nocontrib" in qs: v=pos
    return (v, (y if w else cur))
vals=[None,1,2,3]
n=0; bad=[]
for r in range(len(Q)+1):
    for qs in itertools.combinations(Q,r):
        vs = vals if ("increase" in qs or "decrease" in qs) else vals+["true","false"]
        for lm in (True,False):
            for cur in vs:
                for y in vs:
                    n+=1
                    a=impl(set(qs),lm,cur,y); b=spec(set(qs),lm,cur,y)
                    if a!=b: bad.append((qs,lm,cur,y,a,b))
print(n,len(bad)); print(bad[:10])
