import os, sys, io, contextlib, random, csv, json
exec(open("f7.py").read().split("bad=[]; n=0; nt=0")[0].replace('mode=rnd.choice(["","","","~logic-mode: OR :~ ","~return-mode: no-matches :~ ", "~unmatched-mode: keep :~ "])','mode="@@"'))
def run2(p, meta):
    c=CsvPath(print_default=False); tp=TestPrinter(); c.add_printer(tp)
    c.config.csvpath_errors_policy=["collect","print"]
    with contextlib.redirect_stdout(io.StringIO()):
        try:
            lines=c.collect(p.replace("@@", meta))
        except Exception as e:
            return ("EXC", type(e).__name__, str(e)[:60]), None, None, None
    return lines, obs(c,tp), c.unmatched, c
bad=[]; n=0
for it in range(int(sys.argv[3])):
    rows=file(); p=prog()
    lm=rnd.choice(["","logic-mode: OR "])
    a=run2(p, f"~{lm}return-mode: matches unmatched-mode: keep :~ ")
    b=run2(p, f"~{lm}return-mode: no-matches unmatched-mode: keep :~ ")
    n+=1
    if a[1] is None or b[1] is None:
        if a[0]!=b[0]: bad.append(("EXCDIFF",p,rows,a[0],b[0]))
        continue
    if a[1]!=b[1]: bad.append(("OBS",p,rows,a[1],b[1])); continue
    # partition: collected + unmatched = records read (multiset, order)
    for (lines,_,unm,c) in (a,b):
        unm=unm or []
        read=rows[:c.line_monitor.physical_line_number+1] if c.line_monitor.physical_line_number is not None else []
        # merge check: every read record appears once in lines or unm, in order
        from functools import lru_cache
        L,U,R=lines,unm,read
        @lru_cache(None)
        def go(i,j):
            k=i+j
            if k==len(R): return i==len(L) and j==len(U)
            return (i<len(L) and L[i]==R[k] and go(i+1,j)) or (j<len(U) and U[j]==R[k] and go(i,j+1))
        if len(L)+len(U)!=len(R) or not go(0,0): bad.append(("PART",p,rows,lines,unm,read)); break
    # complement over scanned lines: lines(a) and lines(b) disjoint by index & union = scanned
print(n,len(bad))
for b in bad[:6]: print(repr(b)[:1000]); print()
