import os, sys, io, contextlib, random, csv, json, shutil, glob, hashlib
exec(open("f7.py").read().split("bad=[]; n=0; nt=0")[0].replace('mode=rnd.choice(["","","","~logic-mode: OR :~ ","~return-mode: no-matches :~ ", "~unmatched-mode: keep :~ "])','mode="@@"').replace("$f7.csv[","$["))
from csvpath import CsvPaths
def J(p):
    with open(p) as f: return json.load(f)
def R(p):
    with open(p, newline="") as f: return [r for r in csv.reader(f)]
def sha(p):
    with open(p,"rb") as f: return hashlib.sha256(f.read()).hexdigest()
def nasty_file():
    rows=[]
    for i in range(rnd.choice([1,2,3,5,7])):
        if rnd.random()<0.15: rows.append([])
        else: rows.append([str(rnd.choice([0,1,2,3,5,10,""])), rnd.choice(["x","y","",'q"q',"a,b","l1\nl2","z z"])][:rnd.choice([1,2,2,2])])
    with open("f7.csv","w",newline="") as f: csv.writer(f).writerows(rows)
    return rows
bad=[]; n=0
METHODS=["collect_paths","fast_forward_paths","next_paths","collect_by_line","fast_forward_by_line","next_by_line"]
for it in range(int(sys.argv[3])):
    rows=nasty_file()
    for d in ("archive","inputs","cache"): shutil.rmtree(d, ignore_errors=True)
    paths=[prog().replace("@@", f"~id: p{i} validation-mode: no-raise unmatched-mode: keep :~ ") for i in range(rnd.randrange(1,4))]
    cs=CsvPaths(print_default=False)
    cs.file_manager.add_named_file(name="f", path="f7.csv")
    cs.paths_manager.add_named_paths(name="g", paths=paths)
    m=rnd.choice(METHODS)
    with contextlib.redirect_stdout(io.StringIO()):
        try:
            fn=getattr(cs,m)
            if m.startswith("next"): 
                kw=dict(collect=True) 
                yielded=[l for l in fn(pathsname="g", filename="f", **kw)]
            else: fn(pathsname="g", filename="f")
        except Exception as e: bad.append(("EXC",m,paths,rows,type(e).__name__,str(e)[:80])); continue
    n+=1
    rs=cs.results_manager.get_named_results("g")
    rundirs=glob.glob("archive/g/*"); 
    if len(rundirs)!=1: bad.append(("RUNDIRS",rundirs)); continue
    rm=J(os.path.join(rundirs[0],"manifest.json"))
    prob=[]
    if rm.get("status")!="complete": prob.append("status")
    if rm.get("all_valid")!=all(r.csvpath.is_valid for r in rs): prob.append("all_valid")
    if rm.get("error_count")!=sum(len(r.errors) for r in rs): prob.append("error_count")
    for i,r in enumerate(rs):
        d=os.path.join(rundirs[0], f"p{i}")
        if not os.path.isdir(d): prob.append(f"nodir{i}"); continue
        try:
            if J(d+"/vars.json")!=json.loads(json.dumps(r.csvpath.variables)): prob.append(f"vars{i}")
            if [e["line_count"] for e in J(d+"/errors.json")]!=[e.line_count for e in r.errors]: prob.append(f"errors{i}")
            mm=J(d+"/manifest.json")
            if mm["valid"]!=r.csvpath.is_valid: prob.append(f"valid{i}")
            for fn_,h in mm["file_fingerprints"].items():
                if sha(d+"/"+fn_)!=h: prob.append(f"fp{i}:{fn_}")
            present=set(os.listdir(d))-{"manifest.json"}
            if set(mm["file_fingerprints"])!=present: prob.append(f"fpset{i}")
            mem_lines=[l for l in r.lines.next()] if not isinstance(r.lines,list) else r.lines
            disk=R(d+"/data.csv") if os.path.exists(d+"/data.csv") else []
            if "collect" in m or m.startswith("next"):
                if disk!=mem_lines: prob.append(f"data{i}")
            um=r.unmatched or []
            disku=R(d+"/unmatched.csv") if os.path.exists(d+"/unmatched.csv") else []
            if disku!=[x for x in um]: prob.append(f"unm{i}")
            po=r.printouts
            if po:
                txt=open(d+"/printouts.txt").read()
                if txt!="---- PRINTOUT: default\n"+"".join(x+"\n" for x in po): prob.append(f"print{i}")
        except Exception as e: prob.append(f"EXC{i}:{type(e).__name__}:{str(e)[:50]}")
    if prob: bad.append((m,prob,paths,rows))
print(n,len(bad))
from collections import Counter
print(Counter((b[0], tuple(sorted(set(x.rstrip('0123456789:') if not x.startswith('fp') else x.split(':')[0][:2] for x in b[1]))) if isinstance(b[1],list) else b[4]) for b in bad))
for b in bad[:6]: print(repr(b)[:700]); print()
