import os, sys, io, contextlib
sys.path.insert(0, sys.argv[1]); os.environ["CSVPATH_CONFIG_PATH"]="config.ini"
from csvpath import CsvPath
import csv
with open("bl.csv","w",newline="") as f: csv.writer(f).writerows([["1","x"],[]])
for pol in (["collect","print"],["raise","collect"]):
    c=CsvPath(print_default=False); c.config.csvpath_errors_policy=pol
    out=None
    with contextlib.redirect_stdout(io.StringIO()):
        try: l=c.collect('$bl.csv[*][ last() -> @su = sum("zz") ]'); out=(pol, "ok", l, [ (e.line_count,str(e.error)[:50]) for e in c.errors or []], c.variables)
        except Exception as e: out=(pol, "EXC", type(e).__name__, str(e)[:60])
    print(out)
