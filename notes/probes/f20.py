import os, sys, io, contextlib, random, csv, json, shutil, glob
sys.path.insert(0, sys.argv[1]); os.environ["CSVPATH_CONFIG_PATH"]="config.ini"
from csvpath import CsvPaths, CsvPath
rnd=random.Random(int(sys.argv[2]))
def J(p):
    with open(p) as f: return json.load(f)
def filt():
    return rnd.choice(['above(int(#0), %d)'%rnd.randrange(0,6), 'not(empty(#1))', 'yes()', 'gt(line_number(), %d)'%rnd.randrange(0,3), 'in(#1, "x|y|a,b")', 'lt(length(#1), 4)', 'first(#1)'])
def nasty_file():
    rows=[]
    for i in range(rnd.choice([2,3,5,7])):
        rows.append([str(rnd.choice([0,1,2,3,5,10])), rnd.choice(["x","y","",'q"q',"a,b","l1\nl2","z z"])])
    with open("f20.csv","w",newline="") as f: csv.writer(f).writerows(rows)
    return rows
bad=[];n=0;aborted=0
for it in range(int(sys.argv[3])):
    rows=nasty_file()
    for d in ("archive","inputs","cache"): shutil.rmtree(d, ignore_errors=True)
    k=rnd.randrange(2,5)
    pre=[False]+[rnd.random()<0.7 for _ in range(k-1)]
    fs=[filt() for _ in range(k)]
    paths=[f"~id: s{i} validation-mode: no-raise {'source-mode: preceding ' if pre[i] else ''}:~ $[*][ {fs[i]} @n = count_lines() ]" for i in range(k)]
    cs=CsvPaths(print_default=False)
    cs.file_manager.add_named_file(name="f", path="f20.csv")
    cs.paths_manager.add_named_paths(name="g", paths=paths)
    with contextlib.redirect_stdout(io.StringIO()):
        try: cs.collect_paths(pathsname="g", filename="f")
        except Exception as e: aborted+=1; continue
    n+=1
    rs=cs.results_manager.get_named_results("g")
    lines=[[l for l in r.lines.next()] for r in rs]
    for i in range(k):
        src = lines[i-1] if pre[i] else rows
        with open("stage.csv","w",newline="") as f: csv.writer(f).writerows(src)
        c=CsvPath(print_default=False)
        with contextlib.redirect_stdout(io.StringIO()):
            try: exp=c.collect(f"$stage.csv[*][ {fs[i]} @n = count_lines() ]")
            except Exception as e: exp=("EXC",type(e).__name__)
        if exp!=lines[i] or (isinstance(exp,list) and c.variables.get("n")!=rs[i].csvpath.variables.get("n")): bad.append((i,pre,fs,rows,lines[i],exp)); break
        mm=J(glob.glob(f"archive/g/*/s{i}/manifest.json")[0])
        expfile = glob.glob(f"archive/g/*/s{i-1}/data.csv")[0] if pre[i] else cs.file_manager.get_named_file("f")
        if mm["actual_data_file"]!=expfile: bad.append(("ADF",i,mm["actual_data_file"],expfile)); break
print(n,aborted,len(bad))
for b in bad[:5]: print(repr(b)[:800]); print()
