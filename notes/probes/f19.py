import os, sys, io, contextlib, random, csv, json, shutil
sys.path.insert(0, sys.argv[1])
os.environ["CSVPATH_CONFIG_PATH"]="config.ini"
from csvpath import CsvPaths
rnd=random.Random(int(sys.argv[2]))
ALPH=list('ab1 ,;|\t"\'\n`') + ['é',' ']
def cell():
    return ''.join(rnd.choice(ALPH) for _ in range(rnd.choice([0,1,1,2,3,5])))
bad=[];n=0
for it in range(int(sys.argv[3])):
    for d in ("archive","inputs","cache"): shutil.rmtree(d, ignore_errors=True)
    rows=[[cell() for _ in range(rnd.choice([1,1,2,3]))] for _ in range(rnd.choice([1,2,3]))]
    with open("f19.csv","w",newline="",encoding="utf-8") as f: csv.writer(f).writerows(rows)
    res=[]
    for k in range(2):   # second iteration = warm disk cache, new instance
        cs=CsvPaths(print_default=False)
        cs.file_manager.add_named_file(name="f", path="f19.csv")
        cs.paths_manager.add_named_paths(name="g", paths=['$[*][ @h = count_headers() ]'])
        with contextlib.redirect_stdout(io.StringIO()):
            try: cs.collect_paths(pathsname="g", filename="f")
            except Exception as e: res.append(("EXC",type(e).__name__,str(e)[:60])); continue
        r=cs.results_manager.get_named_results("g")[0]
        res.append((r.csvpath.headers, r.csvpath.variables, r.csvpath.line_monitor.physical_end_line_number, r.csvpath.line_monitor.data_end_line_count))
    n+=1
    if res[0]!=res[1]: bad.append((rows,res))
print(n,len(bad))
for b in bad[:5]: print(repr(b)[:500])
