import os, sys, io, contextlib, random, csv
sys.path.insert(0, sys.argv[1])
os.environ["CSVPATH_CONFIG_PATH"]="config.ini"
from csvpath import CsvPath
from csvpath.util.line_counter import LineCounter
rnd=random.Random(int(sys.argv[2]))
ALPH=list('ab1 ,;|\t"\'\n`#$[]~') + ['é','日','\U0001F600','́','\x00','\x0b','\x0c','\x1c','\x85',' ']
def cell():
    n=rnd.choice([0,0,1,1,2,3,5])
    return ''.join(rnd.choice(ALPH) for _ in range(n))
bad=[]; n=0
for it in range(int(sys.argv[3])):
    d=rnd.choice([',',';','|','\t']); q=rnd.choice(['"',"'"])
    rows=[[cell() for _ in range(rnd.choice([0,1,1,2,3,6]))] for _ in range(rnd.choice([0,1,2,3,5,12]))]
    with open("f6.csv","w",newline="",encoding="utf-8") as f:
        csv.writer(f, delimiter=d, quotechar=q).writerows(rows)
    c=CsvPath(delimiter=d, quotechar=q, print_default=False)
    try:
        with contextlib.redirect_stdout(io.StringIO()):
            got=c.collect("$f6.csv[*][yes()]")
        hdr=c.headers
    except Exception as e:
        bad.append(("EXC", type(e).__name__, str(e)[:80], d,q,rows)); continue
    exp=[r for r in rows if len(r)>0]
    n+=1
    eh = LineCounter.clean_headers(exp[0]) if exp else []
    if got!=exp: bad.append(("LINES",d,q,rows,got))
    elif hdr!=eh: bad.append(("HDR",d,q,rows,hdr,eh))
print(n, len(bad))
from collections import Counter
print(Counter((b[0], b[1] if b[0]=="EXC" else "", len(b[5]) if b[0]=="EXC" else -1) for b in bad))
