import os, sys, io, contextlib, random, csv, json, shutil
exec(open("f7.py").read().split("bad=[]; n=0; nt=0")[0].replace('mode=rnd.choice(["","","","~logic-mode: OR :~ ","~return-mode: no-matches :~ ", "~unmatched-mode: keep :~ "])','mode="@@"').replace("$f7.csv[","$["))
from csvpath import CsvPaths
def mobs(r):
    c=r.csvpath
    lines=[l for l in r.lines.next()] if not isinstance(r.lines,list) else r.lines
    return (lines, json.dumps({k:v for k,v in c.variables.items()}, sort_keys=True, default=str), c.scan_count, c.match_count, c.is_valid, c.stopped, [e.line_count for e in r.errors], r.printouts)
def group(paths, method):
    for d in ("archive","inputs","cache"): shutil.rmtree(d, ignore_errors=True)
    cs=CsvPaths(print_default=False)
    cs.file_manager.add_named_file(name="f", path="f7.csv")
    cs.paths_manager.add_named_paths(name="g", paths=paths)
    with contextlib.redirect_stdout(io.StringIO()):
        try:
            if method=="serial": cs.collect_paths(pathsname="g", filename="f"); ret=None
            else: ret=cs.collect_by_line(pathsname="g", filename="f")
        except Exception as e: return ("EXC", type(e).__name__, str(e)[:80]), None
    return [mobs(r) for r in cs.results_manager.get_named_results("g")], ret
def alone(p):
    c=CsvPath(print_default=False); tp=TestPrinter(); c.add_printer(tp)
    with contextlib.redirect_stdout(io.StringIO()):
        try: lines=c.collect(p.replace("$[","$f7.csv["))
        except Exception as e: return ("EXC", type(e).__name__)
    return (lines, json.dumps({k:v for k,v in c.variables.items()}, sort_keys=True, default=str), c.scan_count, c.match_count, c.is_valid, c.stopped, [e.line_count for e in (c.errors or [])], tp.lines)
bad=[]; n=0
for it in range(int(sys.argv[3])):
    rows=file()
    if not rows: continue
    paths=[prog().replace("@@", f"~id: p{i} validation-mode: no-raise :~ ") for i in range(rnd.randrange(1,4))]
    s,_=group(paths,"serial"); b,ret=group(paths,"byline")
    al=[alone(p) for p in paths]
    n+=1
    if s!=b: bad.append(("S/B",paths,rows,s,b))
    elif isinstance(s,list) and s!=al: bad.append(("S/A",paths,rows,s,al))
print(n,len(bad))
for b in bad[:5]:
    print(b[0], b[1], b[2]); 
    if isinstance(b[3],list) and isinstance(b[4],list):
        for x,y in zip(b[3],b[4]):
            if x!=y: print("   ", x, "\n   ", y)
    else: print("   ", b[3], b[4])
    print()
