import os, sys, io, contextlib, random, csv
sys.path.insert(0, sys.argv[1])
os.environ["CSVPATH_CONFIG_PATH"]="config.ini"
from csvpath import CsvPath
from csvpath.util.printer import TestPrinter
rnd=random.Random(int(sys.argv[2]))
PUNCT=list("!%&'()*+,-/:;<=>?@[]^_`{|}~#")   # '.' handled separately, no $ and "
def text():
    n=rnd.choice([1,1,2,3,6])
    return ''.join(rnd.choice(list("ab1 ")+PUNCT+[" "]) for _ in range(n))
REFS=[("$.headers.a", lambda e:e["a"]), ("$.headers.b", lambda e:e["b"]), ("$.headers.0", lambda e:e["a"]), ("$.variables.x", lambda e:e["x"]), ("$.variables.d.k", lambda e:e["dk"]),
      ("$.variables.s.0", lambda e:e["s0"]), ("$.variables.s.length", lambda e:e["slen"]), ("$.metadata.title", lambda e:"T"), ("$.csvpath.line_number", lambda e:e["ln"]), ("$.csvpath.count_matches", lambda e:e["cm"])]
def template():
    chunks=[]
    for _ in range(rnd.randrange(1,6)):
        if rnd.random()<0.5: chunks.append(("T",text()))
        else: chunks.append(("R",rnd.choice(REFS)))
    return chunks
def render(chunks):
    out=""
    for i,(k,v) in enumerate(chunks):
        if k=="T": out+=v
        else: out+=v[0]
    return out
def expect(chunks, env):
    return "".join(v if k=="T" else str(v[1](env)) for k,v in chunks)
rows=[["a","b"],["1","x y"],["22",""],["3","z"]]
with open("f16.csv","w",newline="") as f: csv.writer(f).writerows(rows)
bad=[];n=0;skipped=0
for it in range(int(sys.argv[3])):
    ch=template(); t=render(ch)
    # domain restrictions: a reference directly followed by text starting with a name char or '.' is a different reference / needs '..'
    ok=True
    for i,(k,v) in enumerate(ch):
        if k=="R" and i+1<len(ch) and ch[i+1][0]=="T":
            nxt=ch[i+1][1][0]
            import re
            if re.match(r"""[^\.\$\s!\^\:\,;%\(\)\-\+@#\{\}\[\]&<>\/\|\?"']""", nxt) or nxt in ".'": ok=False
        if k=="R" and i+1<len(ch) and ch[i+1][0]=="R": ok=False
    if not ok: skipped+=1; continue
    p='~title: T :~ $f16.csv[1*][ @x = #a @d.k = #b push("s", #a) print("%s") ]' % t
    c=CsvPath(print_default=False); tp=TestPrinter(); c.add_printer(tp)
    c.config.csvpath_errors_policy=["collect"]
    with contextlib.redirect_stdout(io.StringIO()):
        try: c.collect(p)
        except Exception as e: bad.append(("EXC",t,str(e)[:80])); continue
    exp=[]
    s=[]
    for i,r in enumerate(rows[1:],start=1):
        s.append(r[0])
        env=dict(a=r[0],b=r[1],x=r[0],dk=r[1],s0=s[0],slen=len(s),ln=i,cm=i-1)
        exp.append(expect(ch,env))
    n+=1
    if tp.lines!=exp: bad.append((t,tp.lines,exp,[str(e.error)[:60] for e in (c.errors or [])][:1]))
print(n,skipped,len(bad))
for b in bad[:12]: print(repr(b)[:500])
