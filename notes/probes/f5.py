import os, sys, io, contextlib, itertools, csv
sys.path.insert(0, sys.argv[1]); os.environ["CSVPATH_CONFIG_PATH"]="config.ini"
from csvpath import CsvPath
from csvpath.util.printer import TestPrinter
rows=[["a","b"],["1","x"],["zz","y"],["3","z"],["4","w"]]
with open("f5.csv","w",newline="") as f: csv.writer(f).writerows(rows)
FL=["raise","collect","stop","fail","print","quiet"]
KINDS={"argtype":'@s = add(int(#a), 1)', "rule":'@s = substring(#b, -1)', "pyexc":'@s = int(#a)', "nested":'yes() -> @t = add(#a, 2)'}
bad=[];n=0
for kind,comp in KINDS.items():
  for r in range(7):
    for pol in itertools.combinations(FL,r):
      for vm in ["", "validation-mode: no-raise, no-stop :", "validation-mode: raise, print :", "validation-mode: fail, stop :"]:
        c=CsvPath(print_default=False); tp=TestPrinter(); c.add_printer(tp); c.config.csvpath_errors_policy=list(pol)
        p=f'~{vm}~ $f5.csv[1*][ push("seen", line_number()) {comp} ]' if vm else f'$f5.csv[1*][ push("seen", line_number()) {comp} ]'
        exc=None
        with contextlib.redirect_stdout(io.StringIO()):
            try: lines=c.collect(p)
            except Exception as e: exc=type(e).__name__; lines=None
        def flag(x):
            if f"no-{x}" in vm: return False
            if x in vm.replace("no-"+x,""): return True
            return x in pol
        errline = 2 if kind!="rule" else 1   # substring(-1) fails on every line; first at 1
        e_raise=flag("raise"); e_stop=flag("stop"); e_fail=flag("fail"); e_print=flag("print"); e_collect="collect" in pol
        seen=c.variables.get("seen",[])
        got=(exc is not None, bool(c.errors), c.is_valid, bool(tp.lines), (lines is not None and [l[0] for l in lines]), list(seen))
        # expectations
        if e_raise:
            exp_seen=list(range(1,errline+1))
        elif e_stop:
            exp_seen=list(range(1,errline+1))
        else: exp_seen=[1,2,3,4]
        okrows=[str(rws[0]) for i,rws in enumerate(rows) if i>=1 and i in exp_seen and (kind!="rule") and i!=errline]
        exp=(e_raise, e_collect, not e_fail, e_print, (False if e_raise else okrows), exp_seen)
        n+=1
        if got!=exp: bad.append((kind,pol,vm,got,exp))
print(n,len(bad))
from collections import Counter
print(Counter((b[0], tuple(i for i,(x,y) in enumerate(zip(b[3],b[4])) if x!=y)) for b in bad).most_common(10))
for b in bad[:8]: print(b)
