import os, sys, io, contextlib, random, csv, json
sys.path.insert(0, sys.argv[1])
os.environ["CSVPATH_CONFIG_PATH"]="config.ini"
from csvpath import CsvPath
from csvpath.util.printer import TestPrinter
rnd=random.Random(int(sys.argv[2]))
def comp():
    k=rnd.randrange(0,100)
    ln=rnd.randrange(0,6); n=rnd.randrange(1,3)
    cond=rnd.choice([f"eq(line_number(),{ln})", f"gt(line_number(),{ln})", f"eq.nocontrib(line_number(),{ln})", f"above(int(#a),{ln})", "exists(#b)", "last()", "last.nocontrib()", "firstscan.nocontrib()"])
    act=rnd.choice(["stop()","skip()",f"advance({n})","fail()","fail_and_stop()",'print("p $.csvpath.line_number $.variables.x ")', f'push("s{n}", line_number())', "@x = count()", f"@y{n} = #a", f"@t.onmatch = line_number()", "@c = counter.k()", f'push.onmatch("m", #b)', "@su = sum(int(#a))", "@v = valid()", f'print.once("once")', f"tally(#b)"])
    r=rnd.random()
    if r<0.5: return f"{cond} -> {act}"
    if r<0.8: return act
    return cond
def prog():
    scan=rnd.choice(["*","*","1*","0-3","1-2","2","0+2+4","1-2+4", "3-1"])
    mode=rnd.choice(["","","","~logic-mode: OR :~ ","~return-mode: no-matches :~ ", "~unmatched-mode: keep :~ "])
    return f"{mode}$f7.csv[{scan}][ " + " ".join(comp() for _ in range(rnd.randrange(1,5))) + " ]"
def file():
    rows=[]
    for i in range(rnd.choice([1,2,3,5,6,7])):
        if rnd.random()<0.15: rows.append([])
        else: rows.append([str(rnd.choice([0,1,2,3,5,10,""])), rnd.choice(["x","y","","z z"])][:rnd.choice([1,2,2,2])])
    if rnd.random()<0.2: rows.append([])
    with open("f7.csv","w",newline="") as f: csv.writer(f).writerows(rows)
    return rows
def obs(c,tp):
    return (json.dumps({k:v for k,v in c.variables.items()}, sort_keys=True, default=str), c.scan_count, c.match_count, c.is_valid, c.stopped, [ (e.line_count) for e in (c.errors or [])], tp.lines)
def run(p, method, nexts=-1):
    c=CsvPath(print_default=False); tp=TestPrinter(); c.add_printer(tp)
    c.config.csvpath_errors_policy=["collect","print"]
    with contextlib.redirect_stdout(io.StringIO()):
        try:
            if method=="collect": lines=c.collect(p, nexts=nexts)
            elif method=="next": lines=[l[:] for l in c.next(p)]
            else: c.fast_forward(p); lines=None
        except Exception as e:
            return ("EXC", type(e).__name__, str(e)[:60]), None
    return lines, obs(c,tp)
bad=[]; n=0; nt=0
for it in range(int(sys.argv[3])):
    rows=file(); p=prog()
    a=run(p,"collect"); b=run(p,"next"); f=run(p,"ff")
    n+=1
    if a[0]!=b[0] or a[1]!=b[1] or a[1]!=f[1]:
        bad.append((p,rows,a,b,f)); continue
    if isinstance(a[0],list) and len(a[0])>0:
        nt+=1
        for k in range(1,len(a[0])+2):
            g=run(p,"collect",nexts=k)
            if g[0]!=a[0][:k]: bad.append(("NEXTS",k,p,rows,g[0],a[0])); break
print(n, nt, len(bad))
for b in bad[:6]: print(repr(b)[:900]); print()
