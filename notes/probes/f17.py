import os, sys, io, contextlib, random
sys.path.insert(0, sys.argv[1])
os.environ["CSVPATH_CONFIG_PATH"]="config.ini"
exec(open("f7.py").read().split("def prog():")[0].split("rnd=random.Random")[0])
rnd=random.Random(int(sys.argv[2]))
exec("def comp():"+open("f7.py").read().split("def comp():")[1].split("def prog():")[0])
from csvpath.matching.lark_parser import LarkParser
P=LarkParser()
def sep(must):
    s=""
    for _ in range(rnd.randrange(0,3)):
        s+=rnd.choice([" ","\n","\t","~ a comment: x ~","  "])
    if must and s.strip(" \n\t")=="" and s=="": s=" "
    return s
amb=0;n=0;diff=0
def shape(t):
    from lark import Tree
    if isinstance(t,Tree): return (t.data, tuple(shape(c) for c in t.children))
    return (t.type, str(t))
for it in range(int(sys.argv[3])):
    comps=[comp() for _ in range(rnd.randrange(1,5))]
    trees=[]
    for lay in range(3):
        txt="["+sep(False)+"".join(c+sep(True) for c in comps)+"]"
        try: t=P.parse(txt)
        except Exception as e: print("PARSEFAIL", repr(txt), str(e)[:80]); continue
        if list(t.find_data("_ambig")): amb+=1; print("AMBIG", repr(txt))
        # drop comment expressions for comparison
        sh=shape(t); sh=(sh[0], tuple(c for c in sh[1] if not (c[0]=="expression" and len(c[1])==1 and c[1][0][0]=="COMMENT")))
        trees.append(sh)
    n+=1
    if len(set(trees))>1: diff+=1; print("LAYOUTDIFF", comps)
print(n,amb,diff)
