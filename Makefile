# /verif build: Coq project (full .vo build, never -vos)
.PHONY: setup coq clean
COQDIR := coq

setup: coq
	@echo setup done

coq:
	cd $(COQDIR) && coq_makefile -f _CoqProject -o Makefile.coq > /dev/null
	cd $(COQDIR) && timeout 2400 $(MAKE) -f Makefile.coq -j16 --no-print-directory

clean:
	cd $(COQDIR) && [ -f Makefile.coq ] && $(MAKE) -f Makefile.coq clean || true
	cd $(COQDIR) && rm -f Makefile.coq Makefile.coq.conf .*.aux */.*.aux
